----------------------------- MODULE OnceMonitor -----------------------------
(***************************************************************************)
(* C02 stated over recorded executions of the real operator with handlers  *)
(* AND sub-handlers, across cause changes and graceful restarts:           *)
(*   inv(id, retry)   a handler or sub-handler was invoked                 *)
(*   done(id, how)    it returned ("ok"), failed for good ("perm") or      *)
(*                    asked for a retry ("temp")                           *)
(*   close            the framework's PATCH wrote the last-handled state   *)
(*                    (the cycle is over)                                  *)
(*   restart          a new operator process took over                     *)
(* Handlers listed in the trace's `perprocess` (resume handlers) succeed   *)
(* at most once per object per operator process, whatever cycles pass.     *)
(* Within a cycle: a handler that succeeded or failed for good is not      *)
(* invoked again; a handler still due is invoked with retry = the number   *)
(* of its attempts so far; the cycle is not closed while a handler that    *)
(* was invoked in it is still due.                                         *)
(***************************************************************************)
EXTENDS Naturals, Sequences, FiniteSets, TLC, Json, IOUtils, TLCExt
Traces == JsonDeserialize(IOEnv.TRACE_FILE)
VARIABLES tid, l, fin, att, once, verdict
vars == <<tid, l, fin, att, once, verdict>>
T == Traces[tid].events
E == T[l]
Ids == {T[i].id : i \in {j \in DOMAIN T : T[j].ev \in {"inv", "done"}}}
PerProc == {Traces[tid].perprocess[i] : i \in DOMAIN Traces[tid].perprocess}
Init == tid \in 1..Len(Traces) /\ l = 1 /\ fin = {} /\ att = [h \in {} |-> 0] /\ once = {} /\ verdict = "ok"
Bad(v) == verdict' = IF verdict = "ok" THEN v ELSE verdict
Att(h) == IF h \in DOMAIN att THEN att[h] ELSE 0
Step ==
  /\ l <= Len(T) /\ l' = l + 1 /\ UNCHANGED tid
  /\ CASE E.ev = "inv" ->
            /\ UNCHANGED <<fin, att, once>>
            /\ IF E.id \in once THEN Bad("resume_handler_invoked_again_in_the_same_process")
               ELSE IF E.id \in fin THEN Bad("invoked_again_after_it_had_finished_in_this_cycle")
               ELSE IF E.retry # Att(E.id) THEN Bad("retry_number_differs_from_the_recorded_attempts")
               ELSE UNCHANGED verdict
       [] E.ev = "done" ->
            /\ att' = [h \in DOMAIN att \cup {E.id} |-> IF h = E.id THEN Att(h) + 1 ELSE att[h]]
            /\ fin' = IF E.how \in {"ok", "perm"} THEN fin \cup {E.id} ELSE fin
            /\ once' = IF E.how \in {"ok", "perm"} /\ E.id \in PerProc THEN once \cup {E.id} ELSE once
            /\ UNCHANGED verdict
       [] E.ev = "close" ->
            /\ fin' = {} /\ att' = [h \in {} |-> 0] /\ UNCHANGED once
            /\ IF \E h \in DOMAIN att : h \notin fin THEN Bad("cycle_closed_while_a_handler_was_still_due") ELSE UNCHANGED verdict
       [] E.ev = "restart" -> once' = {} /\ UNCHANGED <<fin, att, verdict>>
       [] OTHER -> UNCHANGED <<fin, att, once, verdict>>
Spec == Init /\ [][Step]_vars
Book == IF l = Len(T) + 1 THEN TLCSet(1, [TLCGet(1) EXCEPT ![tid] = verdict]) ELSE TRUE
ASSUME TLCSet(1, [i \in 1..Len(Traces) |-> "incomplete"])
Verdicts == \A i \in 1..Len(Traces) : PrintT(<<"MONITOR", i, Traces[i].id, TLCGet(1)[i]>>)
=============================================================================
