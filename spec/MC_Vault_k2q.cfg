SPECIFICATION Spec
CONSTANTS
  Req = {r1, r2}
  NKeys = 2
  Prio <- P11
  MaxItem = 4
  MaxCtx = 4
  MaxRevoke = 2
  MaxFault = 2
  NBackoff = 1
  MaxExpire = 0
  MaxRounds = 1
  SameIsIdentical = TRUE
  Variant = "code"
  Mode = "conn"
  LoginOutcomes <- FreshOnly
SYMMETRY Symm
INVARIANT TypeOK
INVARIANT NoReuse
INVARIANT NoCrash
INVARIANT SingleReauth
INVARIANT LockDiscipline
INVARIANT NoLeak
INVARIANT ReauthOnlyOnRevocation
INVARIANT NotReadyMeansEmpty
PROPERTY LoginOnlyWhenNotReady
CHECK_DEADLOCK FALSE
