------------------------------ MODULE MC_Vault ------------------------------
(* Model-checking entry for Vault.tla: small constants, all interleavings. *)
EXTENDS Vault
P11 == <<1, 1>>
P21 == <<2, 1>>
P1 == <<1>>
FreshOnly == {"fresh"}
FreshSame == {"fresh", "same"}
FreshNone == {"fresh", "none"}
AllOutcomes == {"fresh", "same", "none"}
Symm == Permutations(Req)
=============================================================================
