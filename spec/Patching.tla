------------------------------ MODULE Patching ------------------------------
(***************************************************************************)
(* C08: how the effects accumulated in a cycle reach the API server        *)
(* (kopf/_cogs/clients/patching.py: patch_obj).  Over JV.tla.              *)
(*                                                                         *)
(* A patch = merge content (a JSON mapping) + transformations (functions   *)
(* of the object: here "addfin", "delfin", "tag", "stat").  Up to four     *)
(* requests: merge-patch of the body, merge-patch of the status (through   *)
(* the subresource iff the resource has one), JSON-patch of the body and   *)
(* of the status, the JSON ones guarded by a `test` of the resourceVersion *)
(* of the freshest body known (the response of the last merge-patch, else  *)
(* the body of the event).  422 -> the transformations are handed back to  *)
(* be re-evaluated in the next cycle; 404 -> silently over.                *)
(*                                                                         *)
(* The module gives (1) the reference plan as operators, (2) a state       *)
(* machine of one or more cycles against a server with foreign writers     *)
(* (MC_Patching explores it), (3) ClassifyC08: the replay of a recorded    *)
(* run of the real patch_obj against the reference.                        *)
(***************************************************************************)
EXTENDS JV

K == S("kopf/fin")
FinsOf(doc) == LET f == Get(doc, <<"metadata", "finalizers">>) IN IF IsL(f) THEN f.v ELSE <<>>
TagsOf(doc) == LET f == Get(doc, <<"spec", "tags">>) IN IF IsL(f) THEN f.v ELSE <<>>
HasK(doc) == \E i \in DOMAIN FinsOf(doc) : JEq(FinsOf(doc)[i], K)
ApplyFn(fn, doc) ==
  CASE fn = "addfin" -> IF HasK(doc) THEN doc ELSE Put(doc, <<"metadata", "finalizers">>, L(Append(FinsOf(doc), K)))
    [] fn = "delfin" -> IF ~HasK(doc) THEN doc
                        ELSE Put(doc, <<"metadata", "finalizers">>, L(SelectSeq(FinsOf(doc), LAMBDA x : ~JEq(x, K))))
    \* (transformation functions check the state before changing it: docs/patches.rst)
    [] fn = "tag"    -> IF \E i \in DOMAIN TagsOf(doc) : JEq(TagsOf(doc)[i], S("t")) THEN doc
                        ELSE Put(doc, <<"spec", "tags">>, L(Append(TagsOf(doc), S("t"))))
    [] fn = "stat"   -> Put(doc, <<"status", "t">>, I(1))
    [] OTHER -> doc
RECURSIVE ApplyFns(_, _)
ApplyFns(fns, doc) == IF fns = <<>> THEN doc ELSE ApplyFns(Tail(fns), ApplyFn(Head(fns), doc))

RvOf(doc) == Get(doc, <<"metadata", "resourceVersion">>)
UidOf(doc) == Get(doc, <<"metadata", "uid">>)
\* what the API server does to every stored object: empty finalizers / labels / annotations are dropped
DropEmpty(doc, path) == LET v == Get(doc, path) IN
  IF (IsL(v) /\ v.v = <<>>) \/ (IsD(v) /\ Keys(v) = {}) THEN Del(doc, path) ELSE doc
Normal(doc) == DropEmpty(DropEmpty(DropEmpty(doc, <<"metadata", "finalizers">>), <<"metadata", "labels">>), <<"metadata", "annotations">>)
\* comparison of stored objects: the version counters are the server's business
Strip(doc) == Del(Del(Del(doc, <<"metadata", "resourceVersion">>), <<"metadata", "generation">>), <<"metadata", "deletionTimestamp">>)
SameObj(a, b) == JEq(Strip(Normal(a)), Strip(Normal(b)))

\* ---- the plan ---------------------------------------------------------------------------------------
HasStatus(p) == IsD(p) /\ "status" \in Keys(p)
BodyPart(p, sub) == IF sub /\ HasStatus(p) THEN D([k \in Keys(p) \ {"status"} |-> p.v[k]]) ELSE p
StatusPart(p, sub) == IF sub /\ HasStatus(p) /\ ~IsNull(p.v["status"]) THEN D([k \in {"status"} |-> p.v["status"]]) ELSE EmptyD
NeedsBodyMerge(p, sub) == Keys(BodyPart(p, sub)) # {}
NeedsStatusMerge(p, sub) == Keys(StatusPart(p, sub)) # {}
\* the server side of a merge-patch on the main endpoint / on the status subresource
SrvMerge(doc, payload, sub, onstatus) ==
  IF onstatus THEN (IF HasStatus(payload) THEN Put(doc, <<"status">>, LET m == MergePatch(Get(doc, <<"status">>), payload.v["status"]) IN
                                                                      IF IsNull(m) THEN Absent ELSE m) ELSE doc)
  ELSE LET eff == IF sub /\ HasStatus(payload) THEN D([k \in Keys(payload) \ {"status"} |-> payload.v[k]]) ELSE payload
       IN MergePatch(doc, eff)
IsStatusPath(path) == path # <<>> /\ Head(path) = "status"
\* the server side of a JSON-patch: the main endpoint keeps the status of a resource with the subresource, and vice versa
SrvJson(doc, ops, sub, onstatus) ==
  LET r == ApplyJsonPatch(doc, ops) IN
  IF ~r.ok THEN r
  ELSE IF onstatus THEN Ok(LET st == Get(r.doc, <<"status">>) IN IF IsAbsent(st) THEN Del(doc, <<"status">>) ELSE Put(doc, <<"status">>, st))
  ELSE IF sub THEN Ok(LET st == Get(doc, <<"status">>) IN IF IsAbsent(st) THEN Del(r.doc, <<"status">>) ELSE Put(r.doc, <<"status">>, st))
  ELSE r

-----------------------------------------------------------------------------
(* Replay of a recorded run of the real patch_obj.                         *)
(* rec: [sub, orig (JV: the body of the event), srv0 (JV or Absent: the    *)
(*   object on the server when the call began), patch (JV mapping),        *)
(*   fns (sequence of names), steps (sequence of                           *)
(*     [kind |-> "foreign", after] |                                       *)
(*     [kind |-> "req", ptype, onstatus, payload | ops, code, resp, after]),*)
(*   result: [gone (body is None), remaining (sequence of names), hasrem]] *)
(***************************************************************************)
ReqSteps(rec) == SelectSeq(rec.steps, LAMBDA s : s.kind = "req")
TestOp(ops) == ops # <<>> /\ ops[1].op = "test" /\ ops[1].path = <<"metadata", "resourceVersion">>

\* state of the replay: [phase, fresh, m (server), bad, merged (a merge request happened), last (last response)]
Phases == <<"mbody", "mstatus", "jbody", "jstatus", "done">>
Fail1(st, why) == [st EXCEPT !.bad = IF st.bad = "ok" THEN why ELSE st.bad, !.phase = "done"]

\* skip the phases whose request is not needed in the current state
RECURSIVE Settle(_, _)
Settle(rec, st) ==
  LET target == ApplyFns(rec.fns, st.fresh)
      jb == ~SameObj(IF rec.sub THEN Del(target, <<"status">>) ELSE target, IF rec.sub THEN Del(st.fresh, <<"status">>) ELSE st.fresh)
      js == rec.sub /\ ~JEq(Get(target, <<"status">>), Get(st.fresh, <<"status">>))
  IN CASE st.phase = "mbody" /\ ~NeedsBodyMerge(rec.patch, rec.sub) -> Settle(rec, [st EXCEPT !.phase = "mstatus"])
       [] st.phase = "mstatus" /\ ~NeedsStatusMerge(rec.patch, rec.sub) -> Settle(rec, [st EXCEPT !.phase = "jbody"])
       [] st.phase = "jbody" /\ (rec.fns = <<>> \/ ~jb) -> Settle(rec, [st EXCEPT !.phase = "jstatus"])
       [] st.phase = "jstatus" /\ (rec.fns = <<>> \/ ~js) -> [st EXCEPT !.phase = "done"]
       [] OTHER -> st

Gone(s) == IsAbsent(s.after)
StepReq(rec, st0, s) ==
  LET st == Settle(rec, st0) IN
  IF st.phase = "done" THEN Fail1(st, "a_request_the_plan_does_not_have")
  ELSE IF st.phase \in {"mbody", "mstatus"} THEN
    LET onst == st.phase = "mstatus"
        want == IF onst THEN StatusPart(rec.patch, rec.sub) ELSE BodyPart(rec.patch, rec.sub)
        nextp == IF onst THEN "jbody" ELSE "mstatus"
    IN IF s.ptype # "merge" THEN Fail1(st, "json_patch_where_a_merge_patch_is_due")
       ELSE IF s.onstatus # onst THEN Fail1(st, IF rec.sub THEN "status_not_through_the_subresource" ELSE "subresource_used_though_the_resource_has_none")
       ELSE IF ~JEq(s.payload, want) THEN Fail1(st, "merge_payload_differs_from_the_accumulated_patch")
       ELSE IF s.code = 404 THEN [st EXCEPT !.phase = "done", !.gone = TRUE]
       ELSE IF s.code # 200 THEN Fail1(st, "unexpected_response_code")
       ELSE IF IsAbsent(st.m) THEN Fail1(st, "server_answered_for_a_missing_object")
       \* F3: a merge-patch is addressed by name only: it lands on whatever object bears the name now
       ELSE IF ~JEq(UidOf(st.m), UidOf(rec.orig)) THEN [Fail1(st, "F3") EXCEPT !.m = s.after]
       ELSE LET m2 == SrvMerge(st.m, s.payload, rec.sub, onst) IN
            IF ~SameObj(m2, s.after) THEN Fail1(st, "server_state_after_merge_differs")
            ELSE [st EXCEPT !.phase = nextp, !.m = s.after, !.fresh = s.resp, !.merged = TRUE]
  ELSE \* JSON requests
    LET onst == st.phase = "jstatus"
        target == ApplyFns(rec.fns, st.fresh)
        ops == Tail(s.ops)
        mine == SelectSeq(ops, LAMBDA o : (rec.sub /\ IsStatusPath(o.path)) = onst)
        r == ApplyJsonPatch(st.fresh, ops)
        want == IF ~rec.sub THEN target
                ELSE IF onst THEN (LET t == Get(target, <<"status">>) IN IF IsAbsent(t) THEN Del(st.fresh, <<"status">>) ELSE Put(st.fresh, <<"status">>, t))
                ELSE (LET t == Get(st.fresh, <<"status">>) IN IF IsAbsent(t) THEN Del(target, <<"status">>) ELSE Put(target, <<"status">>, t))
    IN IF s.ptype # "json" THEN Fail1(st, "merge_patch_where_a_json_patch_is_due")
       ELSE IF s.onstatus # onst THEN Fail1(st, IF rec.sub THEN "status_not_through_the_subresource" ELSE "subresource_used_though_the_resource_has_none")
       ELSE IF ~TestOp(s.ops) THEN Fail1(st, "transformation_not_guarded_by_a_version_test")
       ELSE IF ~JEq(s.ops[1].value, RvOf(st.fresh)) THEN Fail1(st, "version_test_is_not_the_freshest_known_version")
       ELSE IF Len(mine) # Len(ops) THEN Fail1(st, "ops_of_the_other_endpoint_in_the_request")
       \* the ops must be the transformation of the body they are guarded by: nothing computed from a staler state
       ELSE IF ~r.ok \/ ~SameObj(r.doc, want) THEN Fail1(st, "ops_do_not_transform_the_tested_version")
       ELSE IF s.code = 404 THEN [st EXCEPT !.phase = "done", !.gone = TRUE]
       ELSE IF s.code = 422 THEN
            (IF ~IsAbsent(st.m) /\ JEq(RvOf(st.m), RvOf(st.fresh)) THEN Fail1(st, "conflict_though_the_version_was_current")
             ELSE [st EXCEPT !.phase = "done", !.conflict = TRUE])
       ELSE IF s.code # 200 THEN Fail1(st, "unexpected_response_code")
       ELSE IF IsAbsent(st.m) \/ ~JEq(RvOf(st.m), RvOf(st.fresh)) THEN Fail1(st, "written_though_the_tested_version_was_stale")
       ELSE LET m2 == SrvJson(st.m, ops, rec.sub, onst) IN
            IF ~m2.ok \/ ~SameObj(m2.doc, s.after) THEN Fail1(st, "server_state_after_json_patch_differs")
            ELSE [st EXCEPT !.phase = IF onst THEN "done" ELSE "jstatus", !.m = s.after, !.fresh = s.resp]

RECURSIVE Replay(_, _, _)
Replay(rec, st, steps) ==
  IF steps = <<>> THEN st
  ELSE LET s == Head(steps) IN
       IF s.kind = "foreign" THEN Replay(rec, [st EXCEPT !.m = s.after], Tail(steps))
       ELSE IF st.phase = "done" /\ st.bad # "ok" THEN st
       ELSE Replay(rec, StepReq(rec, st, s), Tail(steps))

Start(rec) == [phase |-> "mbody", fresh |-> rec.orig, m |-> rec.srv0, bad |-> "ok", merged |-> FALSE, gone |-> FALSE, conflict |-> FALSE]
ClassifyCall(rec) ==
  LET st1 == Replay(rec, Start(rec), rec.steps)
      st == IF st1.bad = "ok" /\ ~st1.gone /\ ~st1.conflict THEN Settle(rec, st1) ELSE st1
  IN IF st.bad # "ok" THEN st.bad
     ELSE IF st.gone THEN (IF rec.result.gone /\ ~rec.result.hasrem THEN "ok" ELSE "a_vanished_object_did_not_end_patching_silently")
     ELSE IF st.conflict THEN (IF rec.result.hasrem /\ rec.result.remaining = rec.fns THEN "ok" ELSE "transformations_lost_after_a_conflict")
     ELSE IF st.phase # "done" THEN "a_request_of_the_plan_is_missing"
     ELSE IF rec.result.hasrem THEN "transformations_carried_forward_though_applied"
     ELSE "ok"

\* ---- several cycles: a conflict is carried forward, the effect is there exactly once in the end ----------
\* closed loop: every change whose handler succeeded has its transformation's effect on the object at rest, exactly once
ClassifyLoop(run) ==
  LET cnt(x) == Len(SelectSeq(run.tags, LAMBDA t : t = x)) IN
  IF ~\E i \in DOMAIN run.handled : run.handled[i] = run.last THEN "the_last_change_was_never_handled"
  ELSE IF \E i \in DOMAIN run.handled : cnt(run.handled[i]) = 0 THEN "transformation_lost"
  ELSE IF \E i \in DOMAIN run.tags : cnt(run.tags[i]) > 1 THEN "transformation_applied_twice"
  ELSE IF \E i \in DOMAIN run.tags : ~\E j \in DOMAIN run.handled : run.handled[j] = run.tags[i] THEN "effect_without_a_handled_change"
  ELSE "ok"
\* daemons / timers of one object, each invocation with a patch of its own; their writes conflict with each other (422,
\* carried forward, re-evaluated): whatever an invocation accumulated is in exactly one merge request, and at rest the
\* effect of its (deliberately not state-checking) transformation is on the object exactly once
ClassifyDLoop(run) ==
  LET nreq(m) == Cardinality({k \in DOMAIN run.sent : \E j \in DOMAIN run.sent[k] : run.sent[k][j] = m})
      ntag(m) == Len(SelectSeq(run.tags, LAMBDA t : t = m))
      A == {run.accum[i] : i \in DOMAIN run.accum}
  IN IF \E m \in A : nreq(m) = 0 THEN "accumulated_content_never_sent"
     ELSE IF \E m \in A : nreq(m) > 1 THEN "accumulated_content_sent_twice"
     ELSE IF \E m \in A : ntag(m) = 0 THEN "transformation_lost"
     ELSE IF \E m \in A : ntag(m) > 1 THEN "transformation_applied_twice"
     ELSE IF \E i \in DOMAIN run.tags : run.tags[i] \notin A THEN "effect_without_an_invocation"
     ELSE "ok"
CountTags(doc) == Len(SelectSeq(TagsOf(doc), LAMBDA x : JEq(x, S("t"))))
ClassifyC08(run) ==
  IF run.kind = "loop" THEN ClassifyLoop(run) ELSE IF run.kind = "dloop" THEN ClassifyDLoop(run) ELSE
  LET labels == [k \in DOMAIN run.calls |-> ClassifyCall(run.calls[k])]
      bad == {k \in DOMAIN run.calls : labels[k] # "ok"}
  IN IF bad # {} THEN labels[CHOOSE k \in bad : \A j \in bad : k <= j]
     ELSE IF run.settled /\ ~IsAbsent(run.final) /\ JEq(UidOf(run.final), UidOf(run.calls[1].orig)) THEN
          (IF run.tagged /\ CountTags(run.final) # run.tags0 + 1 THEN
              (IF CountTags(run.final) > run.tags0 + 1 THEN "transformation_applied_twice" ELSE "transformation_lost")
           ELSE IF run.wantfin = "add" /\ ~HasK(run.final) THEN "finalizer_not_added"
           ELSE IF run.wantfin = "del" /\ HasK(run.final) THEN "finalizer_not_removed"
           ELSE "ok")
     ELSE "ok"
=============================================================================
