---------------------------- MODULE MC_Patching ----------------------------
(***************************************************************************)
(* The delivery plan of Patching.tla run as a state machine against a      *)
(* model server with a foreign writer that may act between any two         *)
(* requests, over several cycles (a conflict hands the transformations to  *)
(* the next cycle, which starts from the then-current object).             *)
(* Checked: nothing computed from a stale version is written, the foreign  *)
(* writer's changes survive, and once a cycle ends without a conflict the  *)
(* merge content and the effect of every transformation are on the object, *)
(* the appended item exactly once.                                         *)
(***************************************************************************)
EXTENDS Patching
CONSTANTS MaxForeign, MaxCycles, StaleOps      \* StaleOps = TRUE: the negative model (ops computed from the body of the event)
VARIABLES orig, cf, m, rv, fresh, frv, phase, fns, merge, cyc, nf, z, stale       \* cf: the configuration, chosen initially, never changes
vars == <<orig, cf, m, rv, fresh, frv, phase, fns, merge, cyc, nf, z, stale>>
Sub == cf.sub
Content == cf.content
Fns0 == cf.fns
Fins0 == cf.fins

C_none == EmptyD
C_both == D([spec |-> D([f |-> I(1)]), status |-> D([s |-> I(1)])])
C_stat == D([status |-> D([s |-> I(1)])])
F_add == <<"addfin", "tag">>
F_del == <<"delfin", "stat">>
F_all == <<"tag", "stat">>
Fi_none == <<>>
Fi_mix == <<S("other/x"), S("keep/y"), K>>
Confs == [sub : BOOLEAN, content : {C_none, C_both, C_stat}, fns : {F_add, F_del, F_all, <<>>}, fins : {Fi_none, Fi_mix}]
Obj0 == D([metadata |-> D([finalizers |-> L(Fins0), uid |-> S("u1")]), spec |-> D([z |-> I(0), tags |-> L(<<S("u")>>)]),
          status |-> D([s |-> I(0)])])
Init == /\ cf \in Confs /\ m = Normal(Obj0) /\ orig = Normal(Obj0) /\ rv = 1 /\ fresh = Normal(Obj0) /\ frv = 1 /\ phase = "mbody" /\ fns = Fns0 /\ merge = Content
        /\ cyc = 1 /\ nf = 0 /\ z = 0 /\ stale = FALSE
RR == [sub |-> Sub, patch |-> merge, fns |-> fns]
St == [phase |-> phase, fresh |-> fresh, m |-> m, bad |-> "ok", merged |-> FALSE, gone |-> FALSE, conflict |-> FALSE]
Ph == Settle(RR, St).phase

Foreign == /\ nf < MaxForeign /\ nf' = nf + 1 /\ z' = z + 1 /\ rv' = rv + 1
           /\ m' = Put(m, <<"spec", "z">>, I(z + 1))
           /\ UNCHANGED <<orig, cf, fresh, frv, phase, fns, merge, cyc, stale>>
ForeignFin == /\ nf < MaxForeign /\ nf' = nf + 1 /\ rv' = rv + 1
              /\ m' = Normal(Put(m, <<"metadata", "finalizers">>, L(SelectSeq(FinsOf(m), LAMBDA x : ~JEq(x, S("other/x"))))))
              /\ UNCHANGED <<orig, cf, fresh, frv, phase, fns, merge, cyc, z, stale>>
Merge(onst) ==
  /\ Ph = (IF onst THEN "mstatus" ELSE "mbody")
  /\ LET payload == IF onst THEN StatusPart(merge, Sub) ELSE BodyPart(merge, Sub)
         m2 == Normal(SrvMerge(m, payload, Sub, onst))
     IN /\ m' = m2 /\ rv' = (IF SameObj(m2, m) THEN rv ELSE rv + 1)
        /\ fresh' = m2 /\ frv' = rv'
  /\ phase' = (IF onst THEN "jbody" ELSE "mstatus")
  /\ UNCHANGED <<orig, cf, fns, merge, cyc, nf, z, stale>>
\* the ops are the difference between the freshest body known and its transformation; guarded by that body's version
Json(onst) ==
  /\ Ph = (IF onst THEN "jstatus" ELSE "jbody")
  /\ LET target == ApplyFns(fns, IF StaleOps THEN orig ELSE fresh)
         want == IF ~Sub THEN target
                 ELSE IF onst THEN (LET t == Get(target, <<"status">>) IN IF IsAbsent(t) THEN Del(m, <<"status">>) ELSE Put(m, <<"status">>, t))
                 ELSE (LET t == Get(m, <<"status">>) IN IF IsAbsent(t) THEN Del(target, <<"status">>) ELSE Put(target, <<"status">>, t))
     IN IF frv = rv
        THEN /\ m' = Normal(want) /\ rv' = rv + 1 /\ fresh' = m' /\ frv' = rv'
             /\ phase' = (IF onst THEN "done" ELSE "jstatus")
             /\ stale' = (stale \/ ~SameObj(fresh, m))           \* ghost: the write went by a body that was not the server's
             /\ UNCHANGED <<fns, merge, cyc, orig>>
        ELSE \* 422: everything left is re-evaluated in the next cycle, which begins with the object as it is by then
             /\ cyc < MaxCycles /\ cyc' = cyc + 1 /\ phase' = "mbody" /\ merge' = EmptyD /\ fresh' = m /\ frv' = rv /\ orig' = m
             /\ UNCHANGED <<m, rv, fns, stale>>
  /\ UNCHANGED <<cf, nf, z>>
Next == Foreign \/ ForeignFin \/ Merge(FALSE) \/ Merge(TRUE) \/ Json(FALSE) \/ Json(TRUE)
Spec == Init /\ [][Next]_vars

Finished == Ph = "done"
HasFn(f) == \E i \in DOMAIN Fns0 : Fns0[i] = f
NoStaleWrite == ~stale
ForeignSurvives == JEq(Get(m, <<"spec", "z">>), I(z))
EffectsThere == Finished =>
  /\ (HasFn("addfin") => HasK(m)) /\ (HasFn("delfin") => ~HasK(m))
  /\ (HasFn("tag") => CountTags(m) = 1) /\ (HasFn("stat") => JEq(Get(m, <<"status", "t">>), I(1)))
  /\ (HasStatus(Content) /\ IsD(Content.v["status"]) /\ "s" \in Keys(Content.v["status"]) /\ ~IsNull(Content.v["status"].v["s"])
        => JEq(Get(m, <<"status", "s">>), Content.v["status"].v["s"]))
OthersKept == (\E i \in DOMAIN FinsOf(Obj0) : JEq(FinsOf(Obj0)[i], S("keep/y"))) => \E i \in DOMAIN FinsOf(m) : JEq(FinsOf(m)[i], S("keep/y"))

=============================================================================
