SPECIFICATION SimSpec
CONSTANTS
  Hs = {"d1", "d2", "t1"}
  ConfSet <- ConfsSim
  Horizon = 40
  MaxEdits = 2
  MaxToggles = 3
  MaxDeletes = 1
  MaxForce = 1
  MaxStops = 1
  MaxKills = 0
  MaxPauses = 0
INVARIANT FinalizerHeld
CHECK_DEADLOCK FALSE
