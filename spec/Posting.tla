------------------------------ MODULE Posting ------------------------------
(***************************************************************************)
(* Kubernetes events about objects (kopf.event / info / warn / exception,  *)
(* and log records of the object loggers): which calls lead to an event    *)
(* (settings.posting.enabled / level / loggers as documented in            *)
(* docs/configuration.rst and in the settings' docstrings), of which type, *)
(* in which order; events about core v1 Events are not posted; a message   *)
(* is cut to 1024 characters; a request that fails is given up (the event  *)
(* is lost) and the poster goes on with the next one -- posting is         *)
(* auxiliary and never fails anything (C12: infrastructure errors are      *)
(* contained).  A reference over call sequences and a classifier for       *)
(* records of the real engine (engines/posting.py, clients/events.py).     *)
(***************************************************************************)
EXTENDS Naturals, Sequences, FiniteSets, TLC
\* a call: [fn, level (log records; else 0), type (kopf.event; else ""), reason, len (of the message), obj ("thing" | "event"), fails (the POST is refused)]
\* settings: [enabled, level, loggers]
Accepted(c, st, warnIgnoresEnabled) ==
  CASE c.fn = "event" -> st.enabled
    [] c.fn = "info" -> st.enabled /\ st.level <= 20
    [] c.fn = "warn" -> (st.enabled \/ warnIgnoresEnabled) /\ st.level <= 30
    [] c.fn = "exception" -> st.enabled /\ st.level <= 40
    [] c.fn = "log" -> st.enabled /\ st.loggers /\ c.level >= st.level
TypeOf(c) ==
  CASE c.fn = "event" -> c.type
    [] c.fn = "info" -> "Normal"
    [] c.fn = "warn" -> "Warning"
    [] c.fn = "exception" -> "Error"
    [] c.fn = "log" -> IF c.level <= 10 THEN "Debug" ELSE IF c.level <= 20 THEN "Normal" ELSE IF c.level <= 30 THEN "Warning"
                       ELSE IF c.level <= 40 THEN "Error" ELSE "Fatal"
ReasonOf(c) == IF c.fn = "log" THEN "Logging" ELSE c.reason
Cut(n) == IF n > 1024 THEN 1024 ELSE n
\* what reaches the API, in order: one request per accepted call about an object that is not a core event
RECURSIVE Requests(_, _, _, _)
Requests(calls, i, st, w) ==
  IF i > Len(calls) THEN <<>>
  ELSE LET c == calls[i] IN
       (IF Accepted(c, st, w) /\ c.obj # "event" THEN <<[type |-> TypeOf(c), reason |-> ReasonOf(c), len |-> Cut(c.len), ok |-> ~c.fails]>> ELSE <<>>)
       \o Requests(calls, i + 1, st, w)
ClassifyPosting(rec) ==
  IF ~rec.alive THEN "the_poster_died"
  ELSE IF rec.requests = Requests(rec.calls, 1, rec.settings, FALSE) THEN "ok"
  ELSE IF rec.requests = Requests(rec.calls, 1, rec.settings, TRUE) THEN "P1"      \* kopf.warn() does not look at settings.posting.enabled
  ELSE "posted_events_differ_from_the_reference"
=============================================================================
