SPECIFICATION SimSpec
CONSTANTS
  Ops = {"a", "b", "c"}
  Ext_ = {}
  NoConf = NoConf
  QMax = 3
  TrackVer = FALSE
  PrioC <- P123
  LifeC <- L8
  PeriodC <- Per3
  MaxStarts = 5
  MaxStops = 2
  MaxKills = 2
  MaxExt = 0
  ExtRecs <- NoExt
INVARIANT RenewsInTime
CHECK_DEADLOCK FALSE
