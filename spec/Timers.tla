------------------------------ MODULE Timers ------------------------------
(***************************************************************************)
(* C10 (and the timer part of C11): the loop of daemons._timer for ONE     *)
(* timer of ONE object.  One action per stretch between two sleeps:        *)
(*   Head   loop top: idle gate, then the handler starts                   *)
(*   End    the handler returned; its outcome decides which sleep follows  *)
(*   Change an essential change of the object is processed (idle reset)    *)
(*   Stop   the stopper is set (object deleted / operator exits)           *)
(*   Tick   the clock; it may not pass a due wake-up (urgency)             *)
(* 0 stands for "not configured" for interval / idle / initial_delay.      *)
(* conf = [interval, sharp, idle, initdelay, backoff] is a never-changing   *)
(* variable so that one TLC run validates traces of many configurations.   *)
(***************************************************************************)
EXTENDS Naturals, Sequences, TLC
CONSTANTS ConfSet, Durs, Delays, Horizon, MaxChanges, MaxFails,
          PermStops      \* TRUE: a permanent failure ends the timer for good (docs/timers.rst); FALSE: family F2

VARIABLES now, pc, wake, started, lastReset,
          out,                           \* outcome of the run in progress: [k, d]
          retry,                         \* the retry number the next run will get
          pStart, pEnd, pOut, pDelay, runs, rs,  \* ghosts: previous run (pDelay: the delay its error asked for); rs = lastReset as seen when the run started
          stopped,                       \* the stopper is set
          changes, fails, conf,
          respawned,                     \* ghost: when the current instance was spawned by a re-match (0: the first instance)
          matching,                      \* the object matches the timer's filters (as of the last processed event)
          forever                        \* the instance has ended on its own (no interval and no idle, or a permanent failure): never again
vars == <<now, pc, wake, started, lastReset, out, retry, pStart, pEnd, pOut, pDelay, runs, rs, stopped, changes, fails, conf, respawned, matching, forever>>

Interval == conf.interval  Sharp == conf.sharp  Idle == conf.idle  InitDelay == conf.initdelay  Backoff == conf.backoff
Max(a, b) == IF a >= b THEN a ELSE b

Init == /\ conf \in ConfSet
        /\ now = 0 /\ pc = "init" /\ wake = conf.initdelay /\ started = 0 /\ lastReset = 0
        /\ out = [k |-> "ok", d |-> 0] /\ retry = 0
        /\ pStart = 0 /\ pEnd = 0 /\ pOut = "none" /\ pDelay = 0 /\ runs = 0 /\ rs = 0 /\ changes = 0 /\ fails = 0 /\ stopped = FALSE /\ respawned = 0 /\ matching = TRUE /\ forever = FALSE

Outcomes == {[k |-> "ok", d |-> 0], [k |-> "perm", d |-> 0], [k |-> "exc", d |-> 0]} \cup {[k |-> "temp", d |-> d] : d \in Delays}

HeadWith(dur, o) ==
  /\ pc \in {"init", "idle", "errsleep", "sleep", "poll"} /\ now >= wake
  /\ IF pc = "poll" /\ lastReset <= started          \* idle-only timers poll until something changes
     THEN pc' = "poll" /\ wake' = now + Idle /\ UNCHANGED <<started, out, retry, pStart, pEnd, pOut, pDelay, runs, rs, fails>>
     ELSE IF Idle > 0 /\ now - lastReset < Idle
     THEN pc' = "idle" /\ wake' = lastReset + Idle /\ UNCHANGED <<started, out, retry, pStart, pEnd, pOut, pDelay, runs, rs, fails>>
     ELSE /\ (o.k # "ok" => fails < MaxFails) /\ fails' = IF o.k = "ok" THEN fails ELSE fails + 1
          /\ pc' = "run" /\ started' = now /\ wake' = now + dur /\ out' = o /\ runs' = runs + 1 /\ rs' = lastReset
          /\ UNCHANGED <<retry, pStart, pEnd, pOut, pDelay>>
  /\ UNCHANGED <<now, lastReset, changes, conf, stopped, respawned, matching, forever>>
LoopHead == \E dur \in Durs : \E o \in Outcomes : HeadWith(dur, o)

End ==
  /\ pc = "run" /\ now >= wake
  /\ pStart' = started /\ pEnd' = now /\ pOut' = out.k /\ pDelay' = out.d
  /\ retry' = IF out.k \in {"temp", "exc"} THEN retry + 1 ELSE 0
  /\ IF stopped THEN pc' = "done" /\ wake' = now
     ELSE IF out.k = "temp" THEN pc' = "errsleep" /\ wake' = now + out.d
     ELSE IF out.k = "exc" THEN pc' = "errsleep" /\ wake' = now + Backoff
     ELSE IF out.k = "perm" /\ PermStops THEN pc' = "done" /\ wake' = now
     ELSE IF Interval > 0 /\ Sharp THEN pc' = "sleep" /\ wake' = now + (Interval - ((now - started) % Interval))
     ELSE IF Interval > 0 THEN pc' = "sleep" /\ wake' = now + Interval
     ELSE IF Idle > 0 THEN (IF lastReset <= started THEN pc' = "poll" /\ wake' = now + Idle      \* poll until something changes
                            ELSE pc' = "idle" /\ wake' = now)                                \* changed meanwhile: straight to the idle gate
     ELSE pc' = "done" /\ wake' = now
  /\ forever' = (forever \/ (pc' = "done" /\ ~stopped))          \* ended on its own
  /\ UNCHANGED <<now, started, lastReset, out, runs, rs, changes, fails, conf, stopped, respawned, matching>>

\* Any processed event of a matching object whose instance has been stopped and has fully ended spawns a NEW instance (unless the old
\* one had ended on its own): with its initial delay, and the event is an essential change of the object. While the last run of the old
\* instance is still in progress nothing is spawned (by the known family F18 of C09 nothing is later either, unless another event comes).
CanRespawn == stopped /\ pc = "done" /\ ~forever
Respawn ==
  /\ CanRespawn
  /\ stopped' = FALSE /\ pc' = "init" /\ wake' = now + InitDelay /\ lastReset' = now /\ retry' = 0 /\ respawned' = now
  /\ pOut' = "none"                      \* the new instance has no previous run (pEnd stays: no overlap across instances either)
  /\ UNCHANGED <<now, started, out, pStart, pEnd, pDelay, runs, rs, fails, conf, forever>>
Change == /\ changes < MaxChanges /\ changes' = changes + 1
          /\ IF matching /\ CanRespawn THEN Respawn /\ UNCHANGED matching
             ELSE lastReset' = now /\ UNCHANGED <<now, pc, wake, started, out, retry, pStart, pEnd, pOut, pDelay, runs, rs, fails, conf, stopped, respawned, matching, forever>>

Stop ==   \* the object is marked for deletion: the stopper is set, every sleep is interrupted, a running handler is left to finish
  /\ ~stopped /\ stopped' = TRUE /\ matching' = FALSE           \* (an object that is being deleted never matches again)
  /\ IF pc \in {"done", "run"} THEN UNCHANGED <<pc, wake>> ELSE pc' = "done" /\ wake' = now
  /\ UNCHANGED <<now, started, lastReset, out, retry, pStart, pEnd, pOut, pDelay, runs, rs, changes, fails, conf, respawned, forever>>
StopFx == /\ IF stopped \/ pc \in {"done", "run"} THEN UNCHANGED <<pc, wake>> ELSE pc' = "done" /\ wake' = now
          /\ stopped' = TRUE
\* the object stops matching the filters: the instance is stopped like on deletion
Unmatch == /\ matching /\ matching' = FALSE /\ StopFx
           /\ UNCHANGED <<now, started, lastReset, out, retry, pStart, pEnd, pOut, pDelay, runs, rs, changes, fails, conf, respawned, forever>>
\* ... and matches again
Rematch == /\ ~matching /\ matching' = TRUE
           /\ IF CanRespawn THEN Respawn /\ UNCHANGED changes
              ELSE lastReset' = now /\ UNCHANGED <<now, pc, wake, started, out, retry, pStart, pEnd, pOut, pDelay, runs, rs, changes, fails, conf, stopped, respawned, forever>>

\* what the code does (F17, a known finding of C12): the PATCH of the run's result is refused by the API for good (an error that is not
\* retried, or retries exhausted): the exception ends the timer task, and nothing starts it again in this operator's life
Dies == /\ pc \in {"sleep", "errsleep", "idle", "poll", "done"} /\ pc' = "done" /\ wake' = now /\ forever' = TRUE
        /\ UNCHANGED <<now, started, lastReset, out, retry, pStart, pEnd, pOut, pDelay, runs, rs, stopped, changes, fails, conf, respawned, matching>>

Urgent == (pc = "run" /\ now >= wake) \/ (pc \in {"init", "idle", "errsleep", "sleep", "poll"} /\ now >= wake)
Tick == /\ now < Horizon /\ ~Urgent /\ now' = now + 1
        /\ UNCHANGED <<pc, wake, started, lastReset, out, retry, pStart, pEnd, pOut, pDelay, runs, rs, changes, fails, conf, stopped, respawned, matching, forever>>

Next == LoopHead \/ End \/ Change \/ Tick
Spec == Init /\ [][Next]_vars

\* ---- the laws of C10, stated at the instant a run starts
JustStarted == pc = "run" /\ started = now
FirstRun  == (JustStarted /\ runs = 1) => started >= InitDelay /\ (Idle > 0 => started - rs >= Idle)
NoOverlap == (JustStarted /\ runs > 1) => started >= pEnd
IdleLaw   == (JustStarted /\ Idle > 0) => started - rs >= Idle
AfterOk   == (JustStarted /\ runs > 1 /\ pOut \in {"ok", "perm"} /\ Interval > 0 /\ ~Sharp) =>
                started = Max(pEnd + Interval, IF Idle > 0 THEN rs + Idle ELSE 0)
AfterOkSharp == (JustStarted /\ runs > 1 /\ pOut \in {"ok", "perm"} /\ Interval > 0 /\ Sharp) =>
                started = Max(pStart + Interval * (((pEnd - pStart) \div Interval) + 1), IF Idle > 0 THEN rs + Idle ELSE 0)
\* after a failed run: the error's delay (or the handler's backoff) instead of the interval -- also when it is zero: at once
AfterTemp == (JustStarted /\ runs > 1 /\ pOut = "temp") => started = Max(pEnd + pDelay, IF Idle > 0 THEN rs + Idle ELSE 0)
AfterExc  == (JustStarted /\ runs > 1 /\ pOut = "exc") => started = Max(pEnd + Backoff, IF Idle > 0 THEN rs + Idle ELSE 0)
PermanentEndsIt == ~(JustStarted /\ runs > 1 /\ pOut = "perm")       \* C11 for timers
\* a re-spawned instance starts like a first one: not before its initial delay, not within the idle time after the re-match
RespawnedFirst == (JustStarted /\ pOut = "none" /\ respawned > 0) => started >= respawned + InitDelay /\ (Idle > 0 => started - rs >= Idle)
=============================================================================
