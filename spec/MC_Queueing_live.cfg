SPECIFICATION Spec
CONSTANTS
  Objs = {o1, o2}
  MaxEv = 2
  Limit = 1
  Recheck = TRUE
INVARIANT InOrder
INVARIANT StrictNoLoss
PROPERTY Progress
CHECK_DEADLOCK FALSE
