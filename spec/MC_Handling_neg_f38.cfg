SPECIFICATION SafeSpec
CONSTANTS
  H = {"a", "d"}
  ConfSet <- Confs_f38
  Delays = {1}
  EssVals = {1, 2}
  Foreign = {}
  Horizon = 5
  Doors <- NoDoors
  MaxEdits = 0
  MaxFails = 1
  MaxKills = 0
  MaxStops = 0
  MaxDeletes = 1
  MaxForeign = 0
  MaxToggles = 2
  MaxRelists = 0
  MaxHolds = 0
INVARIANT NoF38
CHECK_DEADLOCK FALSE
