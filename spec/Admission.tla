---------------------------- MODULE Admission ----------------------------
(***************************************************************************)
(* C18: admission responses faithfully reflect handler outcomes and the    *)
(* requested mutations.  Reference over JV.tla:                            *)
(*   Selected(h, rv)  which registered webhook handlers serve a review      *)
(*   (webhook id, operation, subresource, filters on the reviewed object)  *)
(*   Allowed / Status / Warnings of the response                           *)
(*   Expected object = transformations applied to RFC 7386 merge of the    *)
(*   handlers' instructions into the reviewed object; the returned JSON    *)
(*   patch (RFC 6902, tokenised pointers) applied to the reviewed object   *)
(*   must give it, up to the presence of empty mappings.                   *)
(* A record: [handlers: sequence of [id, typ, ops, sub, outcome, msg, code, *)
(*   warn, instr (JV or Null), fns (sequence of "addfin"/"delfin")],       *)
(*   review: [op, sub, webhook ("" = no hint)], body: JV,                  *)
(*   resp: [raised, allowed, message, code, warnings, ops], ran: ids]      *)
(***************************************************************************)
EXTENDS JV

\* "adm2", "perm2", "temp2": an instance of a subclass of that error class is an error of that class
Rank(o) == CASE o \in {"adm", "adm2"} -> 0 [] o \in {"perm", "perm2"} -> 1 [] o \in {"temp", "temp2"} -> 2 [] OTHER -> 9

\* strictOps = TRUE is the statement ("only handlers matching ... operation ... run"); FALSE is family F12
\* the handler's filters, judged on the reviewed object (the new one; the old one when the review is about a deletion)
FltOk(f, cur) ==
  LET la == Get(cur, <<"metadata", "labels", "l">>)  fa == Get(cur, <<"spec", "a">>) IN
  CASE f = "" -> TRUE
    [] f = "lab_eq" -> JEq(la, S("v"))
    [] f = "lab_absent" -> IsAbsent(la)
    [] f = "fld_present" -> ~IsAbsent(fa)
    [] f \in {"fld_eq1", "fld_cb1"} -> JEq(fa, I(1))
    [] f = "fld_absent" -> IsAbsent(fa)
    [] f = "when_F" -> FALSE
    [] f = "when_T" -> TRUE
SelectedH(h, rv, strictOps) ==
  /\ (rv.webhook = "" \/ rv.webhook = h.id)
  /\ (h.typ = "mutating" /\ rv.op = "DELETE" => h.ops = <<"DELETE">>)
  /\ (h.sub = "*" \/ h.sub = rv.sub)
  /\ (strictOps => (h.ops = <<>> \/ \E i \in DOMAIN h.ops : h.ops[i] = rv.op))
  \* the handler serves the reviewed VERSION of the resource: the one it names, or -- naming none -- the preferred one ("v1" here)
  /\ ("ver" \in DOMAIN h /\ "ver" \in DOMAIN rv => (IF h.ver = "" THEN rv.ver = "v1" ELSE h.ver = rv.ver))

SelIdx(rec, strict) == {i \in DOMAIN rec.handlers : SelectedH(rec.handlers[i], rec.review, strict) /\ FltOk(rec.handlers[i].flt, rec.body)}
SeqOfSet(Q) == LET RECURSIVE F(_) F(T) == IF T = {} THEN <<>> ELSE LET m == CHOOSE x \in T : \A y \in T : x <= y IN <<m>> \o F(T \ {m}) IN F(Q)

Failed(rec, sel) == {i \in sel : rec.handlers[i].outcome # "ok"}
FirstError(rec, sel) ==       \* most specific first; among equals the one that ran first
  LET F == Failed(rec, sel) IN
  CHOOSE i \in F : \A j \in F : Rank(rec.handlers[i].outcome) < Rank(rec.handlers[j].outcome)
                               \/ (Rank(rec.handlers[i].outcome) = Rank(rec.handlers[j].outcome) /\ i <= j)

\* The handlers of one review write into ONE merge-patch document (the `patch` kwarg): a later handler's key overwrites an
\* earlier one's, mappings are descended into. The accumulated document is then merged into the reviewed object once.
RECURSIVE Acc(_, _)
Acc(p, q) == IF ~(IsD(p) /\ IsD(q)) THEN q
             ELSE D([k \in Keys(p) \cup Keys(q) |-> IF k \notin Keys(q) THEN p.v[k] ELSE IF k \notin Keys(p) THEN q.v[k] ELSE Acc(p.v[k], q.v[k])])
RECURSIVE AccAll(_, _, _)
AccAll(acc, rec, idx) == IF idx = <<>> THEN acc
  ELSE LET h == rec.handlers[Head(idx)] IN AccAll(IF IsNull(h.instr) THEN acc ELSE Acc(acc, h.instr), rec, Tail(idx))
MergeAll(doc, rec, idx) == MergePatch(doc, AccAll(EmptyD, rec, idx))

FinsOf(doc) == LET f == Get(doc, <<"metadata", "finalizers">>) IN IF IsL(f) THEN f.v ELSE <<>>
AddFin(doc) == IF \E i \in DOMAIN FinsOf(doc) : JEq(FinsOf(doc)[i], S("fin/x")) THEN doc
               ELSE Put(doc, <<"metadata", "finalizers">>, L(Append(FinsOf(doc), S("fin/x"))))
DelFin(doc) == LET keep == SelectSeq(FinsOf(doc), LAMBDA x : ~JEq(x, S("fin/x"))) IN
               IF keep = <<>> THEN Del(doc, <<"metadata", "finalizers">>) ELSE Put(doc, <<"metadata", "finalizers">>, L(keep))
RECURSIVE FnsAll(_, _, _)
FnsAll(doc, rec, idx) == IF idx = <<>> THEN doc
  ELSE LET fns == rec.handlers[Head(idx)].fns
           RECURSIVE A(_, _)
           A(d, s) == IF s = <<>> THEN d ELSE A(IF Head(s) = "addfin" THEN AddFin(d) ELSE DelFin(d), Tail(s))
       IN FnsAll(A(doc, fns), rec, Tail(idx))

\* does some instruction put a mapping where the reviewed object has a non-mapping (family F13)?
RECURSIVE TypeClash(_, _)
TypeClash(doc, p) == IsD(p) /\ \E k \in Keys(p) :
    IsD(p.v[k]) /\ ((IsD(doc) /\ k \in Keys(doc) /\ ~IsD(doc.v[k]) /\ ~IsNull(doc.v[k])) \/ (IsD(doc) /\ k \in Keys(doc) /\ TypeClash(doc.v[k], p.v[k])))
AnyClash(rec, sel) == \E i \in sel : ~IsNull(rec.handlers[i].instr) /\ TypeClash(rec.body, rec.handlers[i].instr)

Judge(rec, strict) ==
  LET sel == SelIdx(rec, strict)
      idx == SeqOfSet(sel)
      ran == {rec.ran[i] : i \in DOMAIN rec.ran}
      expAllowed == Failed(rec, sel) = {}
      warns == LET RECURSIVE W(_) W(s) == IF s = <<>> THEN <<>> ELSE (IF rec.handlers[Head(s)].warn # "" THEN <<rec.handlers[Head(s)].warn>> ELSE <<>>) \o W(Tail(s)) IN W(idx)
      expObj == FnsAll(MergeAll(rec.body, rec, idx), rec, idx)
      got == ApplyJsonPatch(rec.body, rec.resp.ops)
  IN IF ran # {rec.handlers[i].id : i \in sel} THEN "wrong_handlers_ran"
     ELSE IF rec.resp.raised # "" THEN "raised"
     ELSE IF rec.resp.allowed # expAllowed THEN "wrong_allowed"
     ELSE IF ~expAllowed /\ (rec.resp.message # rec.handlers[FirstError(rec, sel)].msg
                             \/ rec.resp.code # (IF rec.handlers[FirstError(rec, sel)].outcome \in {"adm", "adm2"} THEN rec.handlers[FirstError(rec, sel)].code ELSE 500))
          THEN "wrong_status"
     ELSE IF rec.resp.warnings # warns THEN "wrong_warnings"
     ELSE IF ~got.ok THEN "patch_does_not_apply"
     ELSE IF ~JEq(StripEmpty(got.doc), StripEmpty(expObj)) THEN "patch_result_differs"
     ELSE "ok"

ClassifyC18(rec) ==
  LET v == Judge(rec, TRUE) IN
  IF v = "ok" THEN "ok"
  ELSE IF v = "wrong_handlers_ran" /\ Judge(rec, FALSE) = "ok" THEN "F12"
  ELSE IF v \in {"raised", "patch_result_differs"} /\ AnyClash(rec, SelIdx(rec, TRUE)) THEN "F13"
  ELSE IF v \in {"patch_result_differs", "patch_does_not_apply"} /\ (\E i \in DOMAIN rec.resp.ops : rec.resp.ops[i].op = "move") THEN "F24"
  ELSE IF v = "wrong_handlers_ran" /\ Judge(rec, FALSE) \in {"raised", "patch_result_differs"} /\ AnyClash(rec, SelIdx(rec, FALSE)) THEN "F13"
  ELSE v
=============================================================================
