---------------------------- MODULE Scheduling ----------------------------
(***************************************************************************)
(* aiotasks.Scheduler -- the pool that runs the per-object workers of a    *)
(* watcher (C01: "events of different objects never wait for each other    *)
(* beyond the configured worker limit") and the stoppers of the daemon     *)
(* killer (C09, C13, C20).  Coroutines are handed over (spawn), wait in a  *)
(* FIFO queue while the limit is reached, are started by the spawner, are  *)
(* taken off the books the moment they finish, and are all owned: a closed *)
(* scheduler cancels what runs, consumes what is still pending without     *)
(* ever running it, and close() / wait() return only once nothing is left. *)
(***************************************************************************)
EXTENDS Naturals, Sequences, FiniteSets, TLC
CONSTANTS Jobs, Limit      \* Limit = 0: no limit
VARIABLES pending,   \* Seq(Jobs): handed over, not started yet
          running,   \* the started ones that have not finished
          closed,    \* close() was called
          closing,   \* close() has not returned yet
          seen,      \* every job ever handed over
          order      \* ghost: the sequence in which jobs were started
svars == <<pending, running, closed, closing, seen, order>>
SInit == pending = <<>> /\ running = {} /\ closed = FALSE /\ closing = FALSE /\ seen = {} /\ order = <<>>
Room == Limit = 0 \/ Cardinality(running) < Limit
CanStart == pending # <<>> /\ Room
Spawn(j) == ~closed /\ j \notin seen /\ pending' = Append(pending, j) /\ seen' = seen \cup {j} /\ UNCHANGED <<running, closed, closing, order>>
Refuse(j) == closed /\ j \notin seen /\ seen' = seen \cup {j} /\ UNCHANGED <<pending, running, closed, closing, order>>     \* RuntimeError, the coroutine is closed
Start == /\ ~closed /\ CanStart /\ running' = running \cup {Head(pending)} /\ pending' = Tail(pending) /\ order' = Append(order, Head(pending))
         /\ UNCHANGED <<closed, closing, seen>>
Drain == closed /\ CanStart /\ pending' = Tail(pending) /\ UNCHANGED <<running, closed, closing, seen, order>>     \* started and cancelled at once: never runs
End(j) == j \in running /\ running' = running \ {j} /\ UNCHANGED <<pending, closed, closing, seen, order>>
Close == ~closed /\ closed' = TRUE /\ closing' = TRUE /\ UNCHANGED <<pending, running, seen, order>>
Closed == closing /\ pending = <<>> /\ running = {} /\ closing' = FALSE /\ UNCHANGED <<pending, running, closed, seen, order>>
SNext == (\E j \in Jobs : Spawn(j) \/ Refuse(j) \/ End(j)) \/ Start \/ Drain \/ Close \/ Closed
SSpec == SInit /\ [][SNext]_svars /\ WF_svars(Start) /\ WF_svars(Drain) /\ WF_svars(Closed) /\ \A j \in Jobs : WF_svars(End(j))
\* ---- what must hold
WithinLimit == Limit = 0 \/ Cardinality(running) <= Limit
Range(s) == {s[i] : i \in DOMAIN s}
\* jobs are started in the order in which they were handed over
Fifo == \A i, k \in DOMAIN pending : i < k => pending[i] # pending[k]
StartedInOrder == \A j \in Range(pending) : j \notin Range(order)
\* every job that was accepted is started or -- after close() -- consumed; nothing is left behind when close() has returned
NothingLeft == (closed /\ ~closing) => (pending = <<>> /\ running = {})
EveryJobServed == \A j \in Jobs : (j \in Range(pending)) ~> (j \notin Range(pending))
CloseReturns == closing ~> ~closing
=============================================================================
