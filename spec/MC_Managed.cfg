SPECIFICATION Spec
CONSTANTS
  MaxCC = 2
  MaxRes = 3
  Variant = "code"
INVARIANT LockDiscipline
INVARIANT AtRestLatest
INVARIANT NoDeadlock
PROPERTY Monotone
PROPERTY Eventually
CHECK_DEADLOCK FALSE
