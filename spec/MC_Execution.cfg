SPECIFICATION Spec
INVARIANT NeverBeyond
INVARIANT RetryWithin
INVARIANT Modes
CHECK_DEADLOCK FALSE
