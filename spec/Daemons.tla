------------------------------ MODULE Daemons ------------------------------
(* Prototype: one object, one daemon handler (requires finalizer), transcribed from
   processing.process_spawning_cause / daemons.spawn_daemons, match_daemons, stop_daemons, _runner.
   Time = countdowns. Reaction of the user's daemon: "obey" (exits ObeyDelay after the flag),
   "cancel" (exits only when cancelled), "ignore" (never exits). *)
EXTENDS Integers, Sequences, FiniteSets, TLC
CONSTANTS Reaction, Backoff, Timeout, ObeyDelay, MaxEnv

VARIABLES exists, deleting, match, fin,          \* server object (fin: our finalizer present)
          bl,                                     \* undelivered/unprocessed events: snapshots with a type
          mem,                                    \* operator has a memory for the uid (daemon killer can see its daemons)
          reg, alive, flag, age, cancelled, forever, exitIn,   \* the daemon instance
          wake,                                   \* countdown of the processing cycle's sleep (-1: none); on expiry: touch
          env
vars == <<exists, deleting, match, fin, bl, mem, reg, alive, flag, age, cancelled, forever, exitIn, wake, env>>

Snap(t) == [type |-> t, deleting |-> deleting', match |-> match', fin |-> fin']
Emit(t) == bl' = Append(bl, Snap(t))

Init == /\ exists = TRUE /\ deleting = FALSE /\ match = TRUE /\ fin = FALSE
        /\ bl = << [type |-> "ADDED", deleting |-> FALSE, match |-> TRUE, fin |-> FALSE] >>
        /\ mem = FALSE /\ reg = FALSE /\ alive = FALSE /\ flag = FALSE /\ age = 0 /\ cancelled = FALSE
        /\ forever = FALSE /\ exitIn = -1 /\ wake = -1 /\ env = 0

\* ---------------- environment ----------------
Toggle == /\ exists /\ ~deleting /\ env < MaxEnv /\ env' = env + 1 /\ match' = ~match
          /\ UNCHANGED <<exists, deleting, fin>> /\ Emit("MODIFIED")
          /\ UNCHANGED <<mem, reg, alive, flag, age, cancelled, forever, exitIn, wake>>
Delete == /\ exists /\ ~deleting /\ env < MaxEnv /\ env' = env + 1
          /\ IF fin THEN deleting' = TRUE /\ exists' = TRUE /\ UNCHANGED <<match, fin>> /\ Emit("MODIFIED")
                    ELSE exists' = FALSE /\ UNCHANGED <<deleting, match, fin>> /\ Emit("DELETED")
          /\ UNCHANGED <<mem, reg, alive, flag, age, cancelled, forever, exitIn, wake>>

\* ---------------- the daemon's own behaviour ----------------
SetFlag == /\ flag' = TRUE /\ age' = IF flag THEN age ELSE 0
           /\ exitIn' = IF ~flag /\ alive /\ Reaction = "obey" THEN ObeyDelay ELSE exitIn
DaemonExit ==      \* the user's coroutine returns: _runner's finally removes it from running_daemons
  /\ alive /\ exitIn = 0
  /\ alive' = FALSE /\ reg' = FALSE /\ exitIn' = -1
  /\ forever' = (forever \/ ~flag)                      \* exited on its own accord -> never respawn
  /\ flag' = FALSE /\ age' = 0 /\ cancelled' = FALSE     \* a new instance would get a new stopper
  /\ UNCHANGED <<exists, deleting, match, fin, bl, mem, wake, env>>

\* ---------------- one processing cycle ----------------
Process ==
  /\ bl # <<>> /\ wake' = wake /\ TRUE
  /\ LET s == Head(bl)
         gone == s.type = "DELETED"
     IN
     /\ bl' = Tail(bl)
     /\ mem' = ~gone                                       \* recall(); forget() on DELETED
     /\ IF s.deleting
        THEN \* stop_daemons(all running): staged by the age of the flag
             /\ IF reg THEN SetFlag ELSE UNCHANGED <<flag, age, exitIn>>
             /\ UNCHANGED <<reg, alive, forever>>
             /\ cancelled' = (cancelled \/ (reg /\ flag /\ age >= Backoff))
        ELSE \* spawn_daemons + match_daemons
             /\ IF s.match /\ ~reg /\ ~forever
                THEN reg' = TRUE /\ alive' = TRUE /\ UNCHANGED <<flag, age, exitIn, forever>> /\ cancelled' = FALSE
                ELSE /\ UNCHANGED <<reg, alive, forever>>
                     /\ IF reg /\ ~s.match THEN SetFlag /\ cancelled' = (cancelled \/ (flag /\ age >= Backoff))
                                          ELSE UNCHANGED <<flag, age, exitIn, cancelled>>
     \* finalizer: add when required, remove when not required / when all duties are done (not on DELETED events)
     /\ LET mustBlock == ~s.deleting /\ s.match /\ ~forever
            stopping == reg' /\ alive' /\ (s.deleting \/ ~s.match)
        IN IF gone THEN UNCHANGED <<exists, deleting, match, fin>>
           ELSE IF mustBlock /\ ~s.fin /\ exists /\ ~deleting THEN fin' = TRUE /\ UNCHANGED <<exists, deleting, match>>
           ELSE IF s.deleting /\ s.fin /\ ~stopping /\ exists THEN fin' = FALSE /\ exists' = FALSE /\ UNCHANGED <<deleting, match>>
           ELSE UNCHANGED <<exists, deleting, match, fin>>
  /\ UNCHANGED env

\* after the cycle: the server echoes our own writes as events (kept implicit: only finalizer changes matter here)
Echo == FALSE

Cancel ==   \* effect of task.cancel(): the instance ends unless it ignores cancellation
  /\ alive /\ cancelled /\ Reaction # "ignore" /\ exitIn # 0 /\ exitIn' = 0
  /\ UNCHANGED <<exists, deleting, match, fin, bl, mem, reg, alive, flag, age, cancelled, forever, wake, env>>

Poll ==    \* the cycle's sleep (delays from stop_daemons) ends -> touch -> a new event with the current state
  /\ bl = <<>> /\ exists /\ reg /\ flag /\ alive /\ (deleting \/ ~match)
  /\ bl' = << [type |-> "MODIFIED", deleting |-> deleting, match |-> match, fin |-> fin] >>
  /\ UNCHANGED <<exists, deleting, match, fin, mem, reg, alive, flag, age, cancelled, forever, exitIn, wake, env>>

Tick == /\ bl = <<>> /\ ~(alive /\ exitIn = 0) /\ (flag \/ exitIn > 0) /\ age < Backoff + Timeout + 1
        /\ age' = (IF flag THEN age + 1 ELSE age) /\ exitIn' = (IF exitIn > 0 THEN exitIn - 1 ELSE exitIn)
        /\ UNCHANGED <<exists, deleting, match, fin, bl, mem, reg, alive, flag, cancelled, forever, wake, env>>

OpNext == Process \/ DaemonExit \/ Cancel \/ Poll
Next == OpNext \/ Toggle \/ Delete \/ Tick
Spec == Init /\ [][Next]_vars

Quiet == ~ENABLED OpNext /\ ~ENABLED Tick
\* C09 clauses
AskedOnDisappear == (Quiet /\ ~exists) => ~(alive /\ ~flag)                    \* object gone: every instance at least asked to stop
ReachableByKiller == alive => mem                                             \* the daemon killer iterates memories only
StartOnMatch     == (Quiet /\ exists /\ ~deleting /\ match /\ ~forever) => (alive /\ ~flag)
StopDriven       == (Quiet /\ alive /\ flag /\ Reaction = "cancel") => FALSE   \* a daemon that needs cancelling must eventually get it
\* clauses that hold in the design
SpawnOnlyWhenFree == alive => reg                       \* an instance runs only while registered: no second one is spawned beside it
NoRespawnAfterOwnExit == forever => ~alive
FinalizerHeldWhileAlive == (exists /\ deleting /\ alive /\ mem /\ ~cancelled) => fin    \* not released under a live, not yet cancelled daemon
CancelNotBeforeBackoff == cancelled => age >= Backoff
====
