SPECIFICATION MSpec
CONSTANTS
  ConfSet <- AllConfs
  Durs = {0, 1, 2, 4}
  Delays = {0, 1, 2}
  Horizon = 13
  MaxChanges = 2
  MaxFails = 2
  MaxToggles = 2
  PermStops = TRUE
INVARIANT FirstRun
INVARIANT NoOverlap
INVARIANT IdleLaw
INVARIANT AfterOk
INVARIANT AfterOkSharp
INVARIANT AfterTemp
INVARIANT AfterExc
INVARIANT PermanentEndsIt
INVARIANT RespawnedFirst
CHECK_DEADLOCK FALSE
