SPECIFICATION Spec
INVARIANT InvTotal
INVARIANT InvNoChangeOnDeleting
INVARIANT InvDeleteOnlyHeld
INVARIANT InvNothingOnGoneFreeNoop
INVARIANT InvResumeOptIn
INVARIANT InvAllLaws
CHECK_DEADLOCK FALSE
