SPECIFICATION Spec
CONSTANTS
  Req = {r1, r2, r3}
  NKeys = 2
  Prio <- P21
  MaxItem = 4
  MaxCtx = 5
  MaxRevoke = 1
  MaxFault = 1
  NBackoff = 1
  MaxExpire = 1
  MaxRounds = 1
  Variant = "code"
  Mode = "conn"
  LoginOutcomes <- FreshSame
SYMMETRY Symm
INVARIANT TypeOK
INVARIANT NoReuse
INVARIANT NoCrash
INVARIANT SingleReauth
INVARIANT LockDiscipline
INVARIANT NoLeak
INVARIANT NoExpiredUse
PROPERTY LoginOnlyWhenNotReady
CHECK_DEADLOCK FALSE
