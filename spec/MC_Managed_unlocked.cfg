SPECIFICATION Spec
CONSTANTS
  MaxCC = 2
  MaxRes = 3
  Variant = "unlocked"
INVARIANT AtRestLatest
CHECK_DEADLOCK FALSE
