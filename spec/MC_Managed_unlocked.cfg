SPECIFICATION Spec
CONSTANTS
  MaxCC = 2
  MaxRev = 2
  ResVals = {1, 2}
  Obs = {"o1"}
  Variant = "unlocked"
INVARIANT AtRestLatest
CHECK_DEADLOCK FALSE
