SPECIFICATION Spec
INVARIANT WhenFalseNever
INVARIANT KindExclusive
INVARIANT AbsentPresentExclusive
INVARIANT UnchangedFieldNoUpdate
INVARIANT CurrentValueOnly
CHECK_DEADLOCK FALSE
