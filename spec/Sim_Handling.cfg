SPECIFICATION SimSpec
CONSTANTS
  H = {"a", "d", "r"}
  ConfSet <- Confs_adr
  Delays = {1, 2}
  EssVals = {1, 2, 3, 4}
  Foreign = {"f2"}
  Horizon = 40
  Doors <- KillStop
  MaxEdits = 3
  MaxFails = 2
  MaxKills = 1
  MaxStops = 1
  MaxDeletes = 1
  MaxForeign = 2
  MaxToggles = 2
  MaxRelists = 1
  MaxHolds = 0
INVARIANT InvokeGoverned
CHECK_DEADLOCK FALSE
