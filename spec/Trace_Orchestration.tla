------------------------ MODULE Trace_Orchestration ------------------------
(* Trace validation for Orchestration.tla: every adjustment of the real orchestrator (adjust_tasks, observed from outside at its
   call and at its return, with the insights it sees: watched resources, served namespaces) and every watcher task that starts
   (q.start) or ends (q.depleting) must be what the specification does with those insights: first the redundant tasks are
   stopped and awaited, then their keys are forgotten, then exactly the missing keys are spawned -- one task per key, each
   of which is then seen starting exactly once.  At the end the orchestrator is at rest with the insights as they are then
   (a revision that nobody woke up for is a rejection) and exactly the served keys are watched (or F34 / a watcher died). *)
EXTENDS Orchestration, Sequences, Json, IOUtils, TLCExt
Traces == JsonDeserialize(IOEnv.TRACE_FILE)
VARIABLES tid, l, pending      \* pending: tasks spawned by an adjustment whose watcher has not been seen starting yet
tvars == <<vars, tid, l, pending>>
T == Traces[tid].events
E == T[l]
SetOf(s) == {s[i] : i \in DOMAIN s}
TInit == Init /\ tid \in 1..Len(Traces) /\ l = 1 /\ pending = {}
Ev(e) == l <= Len(T) /\ E.ev = e /\ l' = l + 1 /\ UNCHANGED tid
Key(e) == <<e.r, e.n>>
\* adjust_tasks is entered: whatever revisions happened since the last adjustment are in the insights it reads
TAdjust ==
  /\ Ev("adjust") /\ pc = "wait" /\ waiting
  /\ LET R == SetOf(E.res) N == SetOf(E.nss) IN
     /\ res' = R /\ nss' = N /\ notified' = FALSE /\ waiting' = FALSE /\ pc' = "stop"
     /\ redundant' = {k \in DOMAIN tasks : ~Kept(R, N, k)}
     /\ tasks' = [k \in DOMAIN tasks |-> IF ~Kept(R, N, k) /\ tasks[k] = "live" THEN "stopping" ELSE tasks[k]]
  /\ UNCHANGED <<nrev, ndead, pending>>
\* a watcher task ends: stopped by this adjustment, or on its own
TExit == /\ Ev("exit") /\ (Stopped(Key(E)) \/ Dies(Key(E))) /\ UNCHANGED pending
\* a task that was stopped before its watcher ever ran shows neither a start nor an end
NeverRan == \E k \in pending : Stopped(k) /\ pending' = pending \ {k} /\ UNCHANGED <<tid, l>>
\* adjust_tasks returns: the keys are forgotten, every missing key has got a task
TRest ==
  /\ Ev("rest") /\ pc = "stop" /\ \A k \in redundant : tasks[k] # "stopping"
  /\ LET kept == [k \in DOMAIN tasks \ redundant |-> tasks[k]]
         miss == Spawnable(res, nss) \ DOMAIN kept
     IN /\ tasks' = [k \in DOMAIN kept \cup miss |-> IF k \in miss THEN "live" ELSE kept[k]]
        /\ pending' = pending \cup miss
  /\ redundant' = {} /\ pc' = "wait" /\ waiting' = TRUE /\ UNCHANGED <<res, nss, notified, nrev, ndead>>
\* a watcher is seen starting: it must be one that an adjustment has spawned and that has not been seen starting yet
TStart == /\ Ev("spawn") /\ Key(E) \in pending /\ pending' = pending \ {Key(E)} /\ UNCHANGED vars
\* ... or one that is being spawned by the adjustment in progress (the task ran before adjust_tasks returned)
TStartEarly == /\ Ev("spawn") /\ pc = "stop" /\ Key(E) \in Spawnable(res, nss) /\ Key(E) \notin DOMAIN tasks
               /\ \A k \in redundant : tasks[k] # "stopping"
               /\ tasks' = [k \in DOMAIN tasks \cup {Key(E)} |-> IF k = Key(E) THEN "live" ELSE tasks[k]]
               /\ UNCHANGED <<res, nss, notified, waiting, pc, redundant, nrev, ndead, pending>>
TQuiet == /\ Ev("quiet") /\ pc = "wait" /\ pending = {}
          /\ SetOf(E.res) = res /\ SetOf(E.nss) = nss            \* nobody is left unnotified
          /\ (Live = Served \/ Family_F34 \/ ndead > 0)
          /\ UNCHANGED <<vars, pending>>
TNext == TAdjust \/ TExit \/ NeverRan \/ TRest \/ TStart \/ TStartEarly \/ TQuiet
TSpec == TInit /\ [][TNext]_tvars
Max2(a, b) == IF a >= b THEN a ELSE b
Book == TLCSet(1, [TLCGet(1) EXCEPT ![tid] = Max2(@, l)])
ASSUME TLCSet(1, [i \in 1..Len(Traces) |-> 0])
Verdicts == \A i \in 1..Len(Traces) : PrintT(<<"VERDICT", i, Traces[i].id, TLCGet(1)[i] - 1, Len(Traces[i].events)>>)
=============================================================================
