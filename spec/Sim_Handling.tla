----------------------------- MODULE Sim_Handling -----------------------------
(* MC_Handling paced for `tlc -simulate`: at least one tick between two actions of the environment, and only changes the
   harness can make as one write (an edit changes spec.x, a toggle flips the label). TLC draws the histories (edits, label
   toggles, deletions, foreign finalizers, kills, graceful stops, restarts, re-listings) AND the handlers' outcomes; they are
   replayed into the real operator and the run is validated against Trace_Handling like any other. *)
EXTENDS MC_Handling
VARIABLE gap
Par(e) == e % 2
OneWrite == /\ (obj'.match # obj.match => obj'.ess = (IF Par(obj.ess) = 0 THEN obj.ess - 1 ELSE obj.ess + 1))
            /\ (obj'.match = obj.match /\ obj'.ess # obj.ess => Par(obj'.ess) = Par(obj.ess))
SimInit == Init /\ gap = 1
SimNext == \/ (EnvStep /\ OneWrite /\ gap >= 1 /\ gap' = 0)
           \/ (Tick /\ gap' = IF gap < 5 THEN gap + 1 ELSE gap)
           \/ ((OpStep \/ Deliver \/ Down) /\ UNCHANGED gap)
SimSpec == SimInit /\ [][SimNext]_<<vars, gap>>
=============================================================================
