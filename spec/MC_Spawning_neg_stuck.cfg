SPECIFICATION Spec
CONSTANTS
  Hs = {"d1", "d2", "t1"}
  ConfSet <- ConfsTimedStuck
  Horizon = 16
  MaxEdits = 0
  MaxToggles = 0
  MaxDeletes = 1
  MaxForce = 0
  MaxStops = 0
  MaxKills = 0
  MaxPauses = 0
INVARIANT StuckInTime
CHECK_DEADLOCK FALSE
