---------------------------- MODULE MC_Spawning ----------------------------
EXTENDS Spawning
D(k, b, t, r) == [kind |-> k, backoff |-> b, timeout |-> t, sync |-> FALSE, react |-> r, lat |-> -1]
DL(k, b, t, r, l) == [kind |-> k, backoff |-> b, timeout |-> t, sync |-> FALSE, react |-> r, lat |-> l]
None == D("none", 0, 0, "any")
\* one daemon of every reaction with every combination of backoff / timeout, alone or beside a timer
ConfsPos == {[dh |-> [h \in Hs |-> IF h = "d1" THEN D("daemon", b, t, r) ELSE IF h = "t1" THEN x ELSE None], polling |-> 2, filter |-> TRUE, prompt |-> FALSE, exitto |-> 2, peering |-> FALSE] :
               b \in {0, 2}, t \in {0, 3}, r \in {"obey", "cancel", "ignore", "selfexit"}, x \in {None, D("timer", 0, 0, "any")}}
ConfsQ == {[dh |-> [h \in Hs |-> IF h = "d1" THEN D("daemon", 2, t, r) ELSE IF h = "t1" THEN D("timer", 0, 0, "any") ELSE None], polling |-> 2, filter |-> TRUE, prompt |-> FALSE, exitto |-> 2, peering |-> FALSE] :
               t \in {0, 3}, r \in {"obey", "cancel", "ignore", "selfexit"}}
\* the operator exits at any moment of a daemon's life
ConfsExit == {[dh |-> [h \in Hs |-> IF h = "d1" THEN D("daemon", 2, t, r) ELSE None], polling |-> 2, filter |-> TRUE, prompt |-> FALSE, exitto |-> 2, peering |-> FALSE] :
               t \in {0, 3}, r \in {"obey", "cancel", "ignore"}}
\* the operator is paused and resumed by the peering engine at any moment
ConfsPause == {[dh |-> [h \in Hs |-> IF h = "d1" THEN D("daemon", b, t, r) ELSE IF h = "t1" THEN x ELSE None], polling |-> 2, filter |-> TRUE, prompt |-> FALSE,
                exitto |-> 2, peering |-> TRUE] : b \in {1}, t \in {0, 2}, r \in {"obey", "cancel", "ignore"}, x \in {None}}
\* two daemons with different reactions
ConfsTwo == {[dh |-> [h \in Hs |-> IF h = "d1" THEN D("daemon", 2, 3, r1) ELSE IF h = "d2" THEN D("daemon", 0, t2, r2) ELSE None], polling |-> 2, filter |-> TRUE, prompt |-> FALSE, exitto |-> 2, peering |-> FALSE] :
               r1 \in {"obey", "cancel", "ignore"}, r2 \in {"obey", "cancel", "selfexit"}, t2 \in {0, 2}}
\* a daemon that ignores everything and has no cancellation timeout: the deletion never completes (negative configuration)
ConfsStuck == {[dh |-> [h \in Hs |-> IF h = "d1" THEN D("daemon", 2, 0, "ignore") ELSE None], polling |-> 2, filter |-> TRUE, prompt |-> FALSE, exitto |-> 2, peering |-> FALSE]}
\* functions with stated latencies on a prompt stream: the deletion completes within the bound
ConfsTimed == {[dh |-> [h \in Hs |-> IF h = "d1" THEN DL("daemon", b, t, r, l) ELSE IF h = "t1" THEN x ELSE None], polling |-> 2, filter |-> TRUE, prompt |-> TRUE, exitto |-> 2, peering |-> FALSE] :
               b \in {0, 2}, t \in {0, 3}, r \in {"obey", "cancel", "ignore", "selfexit"}, l \in {0, 1, 4}, x \in {None, D("timer", 0, 0, "any")}}
\* ... and never does with a daemon that ignores everything and has no cancellation timeout (negative configuration)
ConfsTimedStuck == {[dh |-> [h \in Hs |-> IF h = "d1" THEN DL("daemon", 2, 0, "ignore", 0) ELSE None], polling |-> 2, filter |-> TRUE, prompt |-> TRUE, exitto |-> 2, peering |-> FALSE]}
StuckInTime == (obj.exists /\ obj.deleting /\ obj.fin /\ up /\ ~stopping) => now <= gh.delat + Bound
\* the bound is tight up to one polling period: with one period less it is exceeded
TightBound == Bound - conf.polling
TooTight == (obj.exists /\ obj.deleting /\ obj.fin /\ up /\ ~stopping /\ Timed) => now <= gh.delat + TightBound
NoF5 == ~Family_F5
NoF18 == ~Family_F18
NoF33 == ~Family_F33
StuckCompletes == (obj.exists /\ obj.deleting /\ up /\ ~stopping) ~> (~obj.exists \/ ~up \/ stopping \/ now = Horizon)
=============================================================================
