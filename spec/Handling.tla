----------------------------- MODULE Handling -----------------------------
(***************************************************************************)
(* The closed loop of ONE object between the API server and ONE operator   *)
(* process: watch delivery -> worker -> process_resource_event -> PATCH ->  *)
(* the patch comes back as the next watch event.                            *)
(*                                                                         *)
(* Transcribed from kopf/_core/reactor/processing.py (process_resource_    *)
(* event, process_resource_causes, process_changing_cause), queueing.py    *)
(* (worker locals expected_version / consistency_time), actions/           *)
(* progression.py (State, HandlerState), execution.py (outcome             *)
(* classification), application.py (apply: patch | sleep | touch),         *)
(* clients/patching.py (merge request, then JSON-patch with `test`).       *)
(* Serves C02, C03, C05 (system level), C06, C07, C11, C14, C15 (stealth). *)
(* An operator may also have daemons and timers on the object (conf.dh,    *)
(* optional): process_spawning_cause, stop_daemons and the exiting daemon  *)
(* killer are then part of the cycle, as in Spawning.tla (which is the     *)
(* same machinery for an operator with spawning handlers only).            *)
(*                                                                         *)
(* One action per code section between two suspension points:              *)
(*  environment  UserEdit, UserDelete, ForeignAdd/Del, Toggle, Tick,       *)
(*               Kill, Stop, Start (listing), Relist (410), Deliver        *)
(*  operator     ProcBegin   worker takes the next event; cause, finalizer *)
(*                           decision and consistency verdict are computed *)
(*               CWaitWoken / CWaitTimeout   the interruptible wait        *)
(*               Invoke(h,o) one planned handler runs with outcome o       *)
(*               ProcFinish  records / last-handled / release -> request   *)
(*               SrvMerge    the server applies the merge-patch            *)
(*               SrvStatus   ... the status part, as a request of its own  *)
(*               SrvJson     ... applies or refuses (422) the JSON-patch   *)
(*               Reply       the worker gets the (last) response           *)
(*               SleepWake / SleepExpire (-> touch request)                *)
(***************************************************************************)
EXTENDS Naturals, Sequences, FiniteSets, TLC, Causes

CONSTANTS
  H,          \* the universe of handler ids (an id whose `reasons` is empty is not registered)
  ConfSet,    \* the operator configurations to explore: records [hc, order, lifecycle, ctimeout] with
              \*   hc = [h |-> [reasons, optional, deleted, retries (0 = unlimited), mode, backoff]]
              \*   order = handler ids in registration order; lifecycle = "all" | "one" | "asap"
              \*   ctimeout = settings.persistence.consistency_timeout (0 = disabled)
  Delays,     \* delays a TemporaryError may ask for
  EssVals,    \* essence ids available to the user
  Foreign,    \* names of foreign finalizers
  Horizon,    \* bound of the clock
  Doors,      \* which "doors" of the C02 statement are open: subset of {"kill", "lost", "late", "stop"}
  MaxEdits, MaxFails, MaxKills, MaxStops, MaxDeletes, MaxForeign, MaxToggles, MaxRelists, MaxHolds

K == "K"                      \* the framework's own finalizer
NeverRv == 1000000            \* "<rv>~which~never~arrives"
NoRec == [st |-> "none", r |-> 0, pu |-> "none", until |-> 0, first |-> 0]      \* first: when the record was created (`started`), kept only if some handler has a timeout
Range(s) == {s[i] : i \in DOMAIN s}
Finished(p) == p.st \in {"succ", "fail"}
MinOf(S) == CHOOSE x \in S : \A y \in S : x <= y
MaxN(a, b) == IF a >= b THEN a ELSE b
Remove(s, x) == SelectSeq(s, LAMBDA y : y # x)

VARIABLES
  obj,    \* the server's object: [exists, rv, ess, lh, prog, fins, deleting, dummy, match]
  chan,   \* snapshots committed by the server, not yet released to the operator's stream
  bl,     \* snapshots released to the operator, not yet taken by the worker (its backlog)
  up,     \* the operator process is running and watching
  stopping,
  mem,    \* ResourceMemory: [known, nbl (noticed_by_listing), fho (fully_handled_once), rem (remaining fns),
          \*                  forever (forever_stopped), run (running_daemons: per spawning handler id the instance, see NoRun)]
  wk,     \* worker locals: [exp (expected_version, 0 = none), ctime (consistency_time, 0 = none), pr (pressure)]
  pc,     \* "idle" | "cwait" | "plan" | "r1" | "r1done" | "r3" | "r3done" | "sleep" | "touch" | "touchdone"
  cyc,    \* what the running processing cycle has computed so far
  now,    \* the clock
  bud,    \* environment budgets (counters)
  gh,     \* ghosts for the properties
  conf    \* the configuration of the operator: chosen initially, never changes (a variable only so that one
          \* TLC run can validate traces of differently configured operators)

vars == <<obj, chan, bl, up, stopping, mem, wk, pc, cyc, now, bud, gh, conf>>
HC == conf.hc
Order == conf.order
Lifecycle == conf.lifecycle
CTimeout == conf.ctimeout
Registered == {h \in H : HC[h].reasons # {}}

\* handler timeouts (optional field of a handler's configuration; 0 = none): no attempt starts later than T after the first one
TimeoutOf(h) == IF "timeout" \in DOMAIN HC[h] THEN HC[h].timeout ELSE 0
AnyTimeout == \E h \in H : TimeoutOf(h) > 0
FirstNow == IF AnyTimeout THEN now ELSE 0

\* sub-handlers (optional): conf.subs = [parent id |-> the ids its function registers with @kopf.subhandler, in that order]; the ids
\* are members of H that are not registered at the top level (their HC entry carries the defaults of a sub-handler)
SubOf(h) == IF "subs" \in DOMAIN conf THEN conf.subs[h] ELSE <<>>
AllSubs == UNION {Range(SubOf(h)) : h \in H}
Top == H \ AllSubs

\* daemons and timers (optional): conf.dh = [id |-> [kind ("daemon" | "timer" | "none"), backoff (0 = None), timeout (0 = None), sync]],
\* conf.polling = settings.background.cancellation_polling, conf.exitto = settings.queueing.exit_timeout
HasD == "dh" \in DOMAIN conf
DHs == IF HasD THEN DOMAIN conf.dh ELSE {}
DH == conf.dh
DReg == {h \in DHs : DH[h].kind # "none"}
IsTimer(h) == DH[h].kind = "timer"
NoRun == [on |-> FALSE, started |-> FALSE, exited |-> FALSE, flag |-> FALSE, when |-> 0, seen |-> FALSE,
          cset |-> FALSE, creq |-> FALSE, cdel |-> FALSE, aband |-> FALSE, sd |-> {}]

\* an operator may also have a raw-event handler that returns a result on every event (optional conf.res.ev): the accumulated patch is
\* then never empty when the consistency of the view is judged -- no waiting for the echo, and no change handlers on a view that is
\* not known to be consistent (not even after the timeout: a new patch goes out, with a new expectation)
\* conf.res.ev: "off" | "mirror" (the result is the essence the handler saw) | "const" (always the same result)
EvOn == "res" \in DOMAIN conf /\ "ev" \in DOMAIN conf.res /\ conf.res.ev # "off"
EvVal(s) == IF conf.res.ev = "const" THEN 1 ELSE s.ess
\* the idle timeout of the workers (queueing.idle_timeout); a worker that expects a version lives at least until the consistency time
IdleT == IF "res" \in DOMAIN conf /\ "idle" \in DOMAIN conf.res THEN conf.res.idle ELSE CTimeout
NoCyc == [s |-> [type |-> "none"], reason |-> "none", initial |-> FALSE, sel |-> {}, plan |-> <<>>, np |-> [h \in H |-> NoRec],
          purge |-> FALSE, inv |-> {}, fns |-> {}, req |-> [k |-> "none"], fresh |-> 0, ffins |-> <<>>, rv |-> 0, rem |-> {}, gone |-> FALSE, delays |-> {}, skipped |-> FALSE,
          wake |-> 0, last |-> [h |-> "none"],
          todo |-> {}, cur |-> "none", ph |-> "none", age |-> 0, sdelays |-> {}, ct |-> 0,      \* the stopping of daemons: see StopSet / Stage
          sub |-> [p |-> "none", plan |-> <<>>],                                               \* the sub-handlers of the handler that is running
          res |-> [h \in H |-> 0],                                                              \* results returned in this cycle (0: none): status.<handler id>
          evres |-> 0]                                                                          \* the result of the raw-event handler: the essence it saw
FreshMem == [known |-> FALSE, nbl |-> FALSE, fho |-> FALSE, rem |-> {}, forever |-> {}, run |-> [h \in DHs |-> NoRun]]
FreshWk == [exp |-> 0, ctime |-> 0, pr |-> FALSE, eos |-> FALSE, since |-> 0, lost |-> 0]      \* lost (ghost): the expectation that ended with an idle worker      \* eos: the end-of-stream marker sits behind what is queued

Init ==
  /\ conf \in ConfSet
  /\ obj = [exists |-> TRUE, rv |-> 1, ess |-> 1, lh |-> 0, prog |-> [h \in H |-> NoRec], fins |-> <<>>,
            deleting |-> FALSE, dummy |-> 0, match |-> TRUE, res |-> [h \in H |-> 0], evres |-> 0]
  /\ chan = <<>>
  /\ bl = << [type |-> "ADDED", rv |-> 1, ess |-> 1, lh |-> 0, prog |-> [h \in H |-> NoRec], fins |-> <<>>,
              deleting |-> FALSE, match |-> TRUE, dummy |-> FALSE] >>
  /\ up = TRUE /\ stopping = FALSE /\ mem = FreshMem /\ wk = [FreshWk EXCEPT !.pr = TRUE]
  /\ pc = "idle" /\ cyc = NoCyc /\ now = 0
  /\ bud = [edits |-> 0, fails |-> 0, kills |-> 0, stops |-> 0, deletes |-> 0, foreign |-> 0, toggles |-> 0,
            relists |-> 0, holds |-> 0]
  /\ gh = [succ |-> [h \in H |-> 0], seen |-> [h \in H |-> 0], deldone |-> {}, delagain |-> FALSE, early |-> FALSE, early38 |-> FALSE,
           touched |-> FALSE, resumed |-> [h \in H |-> 0], badinv |-> "none", foreignlost |-> FALSE,
           reverted |-> FALSE, leftunmatched |-> FALSE, staleview |-> FALSE,
           ownrv |-> 0, owntime |-> 0, blindwrite |-> FALSE, cseen |-> [h \in H |-> 0], f8 |-> FALSE,
           killer |-> FALSE, exiting |-> FALSE, stopat |-> 0, orph |-> FALSE, rematch |-> {}]

Snap(type, o) == [type |-> type, rv |-> o.rv, ess |-> o.ess, lh |-> o.lh, prog |-> o.prog, fins |-> o.fins,
                  deleting |-> o.deleting, match |-> o.match, dummy |-> (o.dummy # 0)]

\* A write is committed: version bump; the change is announced on the operator's stream if it has one.
Commit(o) ==
  LET gone == o.deleting /\ o.fins = <<>>
      o2 == [o EXCEPT !.rv = obj.rv + 1, !.exists = ~gone]
  IN /\ obj' = o2
     \* (the stream of a process that was asked to stop is closed)
     /\ chan' = IF up /\ ~stopping THEN Append(chan, Snap(IF gone THEN "DELETED" ELSE "MODIFIED", o2)) ELSE chan

(***************************************************************************)
(* Environment                                                             *)
(***************************************************************************)
InCycle == (\E h \in H : obj.prog[h] # NoRec) \/ pc # "idle"
UserEdit(e) ==
  /\ obj.exists /\ bud.edits < MaxEdits /\ e \in EssVals /\ e # obj.ess
  /\ Commit([obj EXCEPT !.ess = e]) /\ bud' = [bud EXCEPT !.edits = @ + 1]
  /\ gh' = [gh EXCEPT !.reverted = @ \/ (e = obj.lh /\ obj.lh # 0)]
  /\ UNCHANGED <<bl, up, stopping, mem, wk, pc, cyc, now>>
  /\ UNCHANGED conf

Toggle(e) ==      \* a label edit that flips whether the handlers' filters match (labels are essential)
  /\ obj.exists /\ bud.toggles < MaxToggles /\ e \in EssVals /\ e # obj.ess
  /\ Commit([obj EXCEPT !.ess = e, !.match = ~@]) /\ bud' = [bud EXCEPT !.toggles = @ + 1]
  /\ gh' = [gh EXCEPT !.reverted = @ \/ (e = obj.lh /\ obj.lh # 0), !.leftunmatched = @ \/ obj.match]
  /\ UNCHANGED <<bl, up, stopping, mem, wk, pc, cyc, now>>
  /\ UNCHANGED conf

UserDelete ==
  /\ obj.exists /\ ~obj.deleting /\ bud.deletes < MaxDeletes
  /\ IF obj.fins # <<>> THEN Commit([obj EXCEPT !.deleting = TRUE])
     ELSE /\ obj' = [obj EXCEPT !.rv = @ + 1, !.exists = FALSE]
          /\ chan' = IF up /\ ~stopping THEN Append(chan, Snap("DELETED", obj')) ELSE chan
  /\ bud' = [bud EXCEPT !.deletes = @ + 1]
  /\ UNCHANGED <<bl, up, stopping, mem, wk, pc, cyc, now, gh>>
  /\ UNCHANGED conf

ForeignAdd(f) ==
  /\ obj.exists /\ ~obj.deleting /\ bud.foreign < MaxForeign /\ f \in Foreign /\ f \notin Range(obj.fins)
  /\ Commit([obj EXCEPT !.fins = Append(@, f)]) /\ bud' = [bud EXCEPT !.foreign = @ + 1]
  /\ UNCHANGED <<bl, up, stopping, mem, wk, pc, cyc, now, gh>>
  /\ UNCHANGED conf

ForeignDel(f) ==
  /\ obj.exists /\ bud.foreign < MaxForeign /\ f \in Foreign /\ f \in Range(obj.fins)
  /\ Commit([obj EXCEPT !.fins = Remove(@, f)]) /\ bud' = [bud EXCEPT !.foreign = @ + 1]
  /\ UNCHANGED <<bl, up, stopping, mem, wk, pc, cyc, now, gh>>
  /\ UNCHANGED conf

Deliver ==        \* the stream hands the next committed snapshot to the watcher -> worker backlog
  /\ up /\ ~stopping /\ chan # <<>>
  /\ bl' = Append(bl, Head(chan)) /\ chan' = Tail(chan)
  /\ wk' = [wk EXCEPT !.pr = TRUE]
  /\ UNCHANGED <<obj, up, stopping, mem, pc, cyc, now, bud, gh>>
  /\ UNCHANGED conf

Kill ==           \* SIGKILL at any point; an in-flight request that the server has not applied is lost
  /\ up /\ "kill" \in Doors /\ bud.kills < MaxKills
  /\ up' = FALSE /\ stopping' = FALSE /\ pc' = "idle" /\ cyc' = NoCyc /\ bl' = <<>> /\ chan' = <<>>
  /\ mem' = FreshMem /\ wk' = FreshWk /\ bud' = [bud EXCEPT !.kills = @ + 1]
  /\ gh' = [gh EXCEPT !.killer = FALSE, !.exiting = FALSE, !.rematch = {}]
  /\ UNCHANGED <<obj, now>>
  /\ UNCHANGED conf

ExitBegin ==      \* (operators with daemons) a graceful exit begins: the root tasks are cancelled, the daemon killer makes its last round ...
  /\ up /\ DReg # {} /\ ~gh.exiting /\ ~stopping /\ "stop" \in Doors /\ bud.stops < MaxStops
  /\ gh' = [gh EXCEPT !.exiting = TRUE, !.stopat = now]
  /\ UNCHANGED <<obj, chan, bl, up, stopping, mem, wk, pc, cyc, now, bud>>
  /\ UNCHANGED conf
Stop ==           \* graceful: the watcher is cancelled (no more deliveries); queued events and the running cycle may finish
  /\ up /\ ~stopping /\ "stop" \in Doors /\ bud.stops < MaxStops /\ (DReg # {} => gh.exiting)
  /\ stopping' = TRUE /\ bud' = [bud EXCEPT !.stops = @ + 1]
  /\ wk' = [wk EXCEPT !.eos = (bl # <<>> \/ pc # "idle")]      \* a worker that is busy gets the marker behind its backlog
  /\ chan' = <<>>                 \* what the closed stream had not handed over is lost
  /\ UNCHANGED <<obj, bl, up, mem, pc, cyc, now, gh>>
  /\ UNCHANGED conf

Down ==
  /\ up /\ stopping /\ pc \in {"idle", "cwait", "sleep"} /\ (DReg # {} => gh.killer)
  /\ up' = FALSE /\ stopping' = FALSE /\ pc' = "idle" /\ cyc' = NoCyc /\ bl' = <<>> /\ chan' = <<>>
  /\ mem' = FreshMem /\ wk' = FreshWk
  /\ gh' = [gh EXCEPT !.killer = FALSE, !.exiting = FALSE, !.rematch = {}]
  /\ UNCHANGED <<obj, now, bud>>
  /\ UNCHANGED conf

Start ==          \* a new process: fresh memories; the initial listing shows the latest state only
  /\ ~up
  /\ up' = TRUE /\ pc' = "idle" /\ cyc' = NoCyc /\ chan' = <<>>
  /\ bl' = IF obj.exists THEN << Snap("NONE", obj) >> ELSE <<>>
  /\ wk' = [FreshWk EXCEPT !.pr = obj.exists] /\ mem' = FreshMem
  /\ gh' = [gh EXCEPT !.resumed = [h \in H |-> 0], !.ownrv = 0, !.owntime = 0]
  /\ UNCHANGED <<obj, stopping, now, bud>>
  /\ UNCHANGED conf

Relist ==         \* 410 Gone / reconnect with a fresh listing inside the same process
  /\ up /\ ~stopping /\ bud.relists < MaxRelists
  /\ chan' = <<>> /\ bl' = IF obj.exists THEN Append(bl, Snap("NONE", obj)) ELSE bl
  /\ wk' = [wk EXCEPT !.pr = TRUE]
  /\ bud' = [bud EXCEPT !.relists = @ + 1]
  /\ UNCHANGED <<obj, up, stopping, mem, pc, cyc, now, gh>>
  /\ UNCHANGED conf

(***************************************************************************)
(* process_resource_event, first section: up to the handlers               *)
(***************************************************************************)
Blocked(s) == K \in Range(s.fins)
Initial(m) == m.nbl /\ ~m.fho
Mandatory == {h \in H : "delete" \in HC[h].reasons /\ ~HC[h].optional}

SelHandlers(reason, initial, deleting) ==      \* ChangingRegistry.iter_handlers for a matching object
  {h \in H : \/ reason \in HC[h].reasons \ {"resume"}
             \/ ("resume" \in HC[h].reasons /\ CauseInitial(reason, initial) /\ (deleting => HC[h].deleted))}

Awake(p) == ~Finished(p) /\ p.until <= now
InOrderOf(order, S) == SelectSeq(order, LAMBDA h : h \in S)
PlanIn(order, todo, recs) ==
  IF todo = {} THEN <<>>
  ELSE IF Lifecycle = "all" THEN InOrderOf(order, todo)
  ELSE IF Lifecycle = "one" THEN << Head(InOrderOf(order, todo)) >>
  ELSE LET m == MinOf({recs[h].r : h \in todo}) IN << Head(InOrderOf(order, {h \in todo : recs[h].r = m})) >>
PlanOf(todo, recs) == PlanIn(Order, todo, recs)

\* State.from_storage(...).with_purpose(reason).with_handlers(sel), incl. re-purposing of superseded records
Prepared(s, reason, sel) ==
  \* (State.from_storage loads the records of the handlers registered at the top level only: Top)
  LET extras0 == {s.prog[h].pu : h \in {x \in Top : s.prog[x].st # "none"}} \ {"none", reason}
      rec(h) == IF h \in sel
                THEN IF s.prog[h].st = "none" THEN [st |-> "pend", r |-> 0, pu |-> reason, until |-> 0, first |-> FirstNow]
                     ELSE IF extras0 # {} THEN [s.prog[h] EXCEPT !.pu = reason] ELSE s.prog[h]
                ELSE s.prog[h]
      np == [h \in H |-> rec(h)]
      extras1 == {np[h].pu : h \in {x \in Top : np[x].st # "none"}} \ {"none", reason}
  IN [np |-> np, purge |-> extras1 # {}]

\* the second half of ProcBegin (also reached after the consistency wait)
EnterHandlers(s, m, reason, fns) ==
  IF reason \in HandlerReasons
  THEN LET sel == SelHandlers(reason, Initial(m), s.deleting)
           pre == Prepared(s, reason, sel)
           todo == {h \in sel : Awake(pre.np[h])}
       IN [NoCyc EXCEPT !.s = s, !.reason = reason, !.initial = CauseInitial(reason, Initial(m)), !.sel = sel,
                        !.np = pre.np, !.purge = pre.purge, !.plan = PlanOf(todo, pre.np), !.fns = fns]
  ELSE [NoCyc EXCEPT !.s = s, !.reason = reason, !.fns = fns]

\* spawning handlers that match the view and have not left on their own: they are wanted, and they need the finalizer
DMatching(s, forever) == {h \in DReg : h \notin forever /\ s.match}
Alive(h) == mem.run[h].on /\ mem.run[h].started /\ ~mem.run[h].exited
\* is a live instance still entitled to hold the object? not once its cancellation timeout has run out
Entitled(h) == Alive(h) /\ ~IsTimer(h)
               /\ ~(mem.run[h].flag /\ DH[h].timeout > 0 /\ now >= mem.run[h].when + DH[h].backoff + DH[h].timeout)

\* the section of process_resource_causes from the finalizer decisions to the consistency verdict, for the view s, the recalled
\* memory m1, the consistency deadline ct and the delays sd that the stopping of daemons asked for
Decision(s, m1, ct, sd) ==
  LET reason0 == IF Registered = {} THEN "none"
                 ELSE DetectCause(s.type, s.deleting, Blocked(s), s.lh # 0, s.lh # s.ess, Initial(m1))
      reason1 == IF s.match THEN reason0 ELSE "none"          \* prematch: be blind to unmatched objects
      mustBlock == (reason1 # "none" /\ Mandatory # {}) \/ DMatching(s, m1.forever) # {}
      addK == mustBlock /\ ~Blocked(s) /\ ~s.deleting
      delK == ~mustBlock /\ Blocked(s)
      \* (the framework's finalizer transformations carried over from a conflicted cycle are dropped and re-decided on this
      \* view: fix F30; user transformations are not in this model)
      rem0 == {}
      fns == rem0 \cup (IF addK THEN {"add"} ELSE {}) \cup (IF delK THEN {"del"} ELSE {})
      reason2 == IF addK \/ delK THEN "none" ELSE reason1
      required == reason2 # "none"
      \* (with a patch already accumulated the wait is not even entered: an elapsed timeout does not make the view consistent then)
      achieved0 == ct = 0 \/ (ct <= now /\ ~EvOn) \/ reason2 = "gone"
  IN [stale |-> (ct # 0 /\ ct <= now /\ reason2 \in HandlerReasons /\ fns = {} /\ rem0 = {} /\ ~EvOn),
      hr |-> (reason2 \in HandlerReasons /\ fns = {} /\ rem0 = {}),      \* the change handlers get their turn in this cycle (if the view is taken as consistent)
      pc |-> IF required /\ ~achieved0 /\ fns = {} /\ ~EvOn THEN "cwait" ELSE "plan",
      cyc |-> IF required /\ ~achieved0 /\ fns = {} /\ ~EvOn
              THEN \* wait for the echo of the own patch (interruptible by newer events)
                   [NoCyc EXCEPT !.s = s, !.reason = reason2, !.wake = ct, !.fns = fns, !.sdelays = sd]
              ELSE IF required /\ ~(achieved0 /\ rem0 = {})
              THEN \* inconsistent and a patch is pending: no change handlers in this cycle
                   [NoCyc EXCEPT !.s = s, !.reason = "none", !.fns = fns, !.skipped = TRUE, !.sdelays = sd]
              ELSE [EnterHandlers(s, m1, reason2, fns) EXCEPT !.sdelays = sd]]

ProcBegin ==
  /\ up /\ pc = "idle" /\ bl # <<>>
  /\ LET s == Head(bl)
         m1 == IF mem.known THEN mem ELSE [FreshMem EXCEPT !.known = TRUE, !.nbl = (s.type = "NONE")]
         echo == wk.exp # 0 /\ wk.exp = s.rv
         ct == IF echo THEN 0 ELSE wk.ctime
         gone == s.type = "DELETED"
         \* process_spawning_cause: spawn what is wanted and not running; what is running and not wanted (or everything, for an
         \* object marked for deletion) is to be stopped - one instance after the other, see StopSet
         mine == {h \in DHs : m1.run[h].on}
         wanted == DMatching(s, m1.forever)
         tospawn == IF s.deleting THEN {} ELSE wanted \ mine
         tostop == IF s.deleting THEN mine ELSE mine \ wanted
         run1 == [h \in DHs |-> IF h \in tospawn THEN [NoRun EXCEPT !.on = TRUE, !.started = IsTimer(h)] ELSE m1.run[h]]
         d == Decision(s, m1, ct, {})
     IN
     /\ bl' = Tail(bl)
     \* (the pressure is relieved only when the backlog is empty: not while the end-of-stream marker of an exiting watcher is in it)
     /\ wk' = [exp |-> IF echo THEN 0 ELSE wk.exp, ctime |-> ct, pr |-> IF Tail(bl) = <<>> /\ ~wk.eos THEN FALSE ELSE wk.pr, eos |-> wk.eos, since |-> 0, lost |-> IF wk.lost = s.rv THEN 0 ELSE wk.lost]
     \* (memories.forget on DELETED: the instances that are running - and those this very cycle spawns - are out of sight from now on)
     /\ mem' = IF gone THEN FreshMem ELSE [m1 EXCEPT !.run = run1]
     /\ IF DReg = {}
        THEN pc' = d.pc /\ cyc' = [d.cyc EXCEPT !.evres = IF EvOn THEN EvVal(s) ELSE 0]
             /\ gh' = [gh EXCEPT !.staleview = @ \/ d.stale \/ (wk.lost \notin {0, s.rv} /\ d.hr)]
        ELSE /\ pc' = "stop"
             /\ cyc' = [NoCyc EXCEPT !.s = s, !.todo = IF gone THEN {} ELSE tostop, !.ct = ct]
             /\ gh' = [gh EXCEPT !.orph = @ \/ (gone /\ (mine # {} \/ tospawn # {})),
                                 !.rematch = @ \cup {h \in mine \cap wanted : m1.run[h].flag}]
  /\ UNCHANGED <<obj, chan, up, stopping, now, bud>>
  /\ UNCHANGED conf

\* stop_daemons: one instance after another; the age of the stop flag is taken before it is (re-)set; an idle timer ends within
\* the instant-exit window
SetRun(h, r) == mem' = [mem EXCEPT !.run[h] = r]
StopSet(h) ==
  /\ up /\ pc = "stop" /\ cyc.cur = "none" /\ h \in cyc.todo
  /\ LET r == mem.run[h]  age == IF r.flag THEN now - r.when ELSE 0
     IN /\ IF IsTimer(h) /\ r.on THEN SetRun(h, NoRun)
           ELSE SetRun(h, [r EXCEPT !.flag = TRUE, !.when = IF r.flag THEN @ ELSE now])
        /\ cyc' = [cyc EXCEPT !.cur = h, !.ph = "set", !.age = age]
  /\ UNCHANGED <<obj, chan, bl, up, stopping, wk, pc, now, bud, gh>>
  /\ UNCHANGED conf
Stage(h) ==       \* after the instant-exit window: done | wait for the backoff | cancel | abandon | poll
  /\ up /\ pc = "stop" /\ cyc.cur = h /\ cyc.ph = "set"
  /\ LET r == mem.run[h]  b == DH[h].backoff  t == DH[h].timeout  age == cyc.age
         next(dl) == [cyc EXCEPT !.cur = "none", !.ph = "none", !.todo = @ \ {h}, !.sdelays = @ \cup dl]
     IN IF ~r.on THEN cyc' = next({}) /\ UNCHANGED mem
        ELSE IF b > 0 /\ age < b THEN cyc' = next({b - age}) /\ UNCHANGED mem
        ELSE IF t > 0 /\ age < t + b
             THEN IF ~r.cset THEN SetRun(h, [r EXCEPT !.cset = TRUE, !.creq = TRUE]) /\ cyc' = [cyc EXCEPT !.ph = "canc"]
                  ELSE cyc' = next({t + b - age}) /\ UNCHANGED mem
        ELSE IF t > 0 THEN SetRun(h, [r EXCEPT !.aband = TRUE]) /\ cyc' = next({})
        ELSE cyc' = next({conf.polling}) /\ UNCHANGED mem
  /\ UNCHANGED <<obj, chan, bl, up, stopping, wk, pc, now, bud, gh>>
  /\ UNCHANGED conf
StageC(h) ==
  /\ up /\ pc = "stop" /\ cyc.cur = h /\ cyc.ph = "canc"
  /\ cyc' = [cyc EXCEPT !.cur = "none", !.ph = "none", !.todo = @ \ {h},
                        !.sdelays = IF mem.run[h].on THEN @ \cup {DH[h].timeout + DH[h].backoff - cyc.age} ELSE @]
  /\ UNCHANGED <<obj, chan, bl, up, stopping, mem, wk, pc, now, bud, gh>>
  /\ UNCHANGED conf
Decide ==         \* the daemons are dealt with: on to the finalizer decisions and the consistency verdict
  /\ up /\ pc = "stop" /\ cyc.cur = "none" /\ cyc.todo = {}
  /\ LET d == Decision(cyc.s, mem, cyc.ct, cyc.sdelays)
     IN pc' = d.pc /\ cyc' = d.cyc /\ gh' = [gh EXCEPT !.staleview = @ \/ d.stale \/ (wk.lost # 0 /\ d.hr)]
  /\ UNCHANGED <<obj, chan, bl, up, stopping, mem, wk, now, bud>>
  /\ UNCHANGED conf

CWaitWoken ==     \* stream pressure: newer events are queued; skip the change handlers, go on to them
  /\ up /\ pc = "cwait" /\ wk.pr
  /\ pc' = "plan" /\ cyc' = [cyc EXCEPT !.reason = "none", !.skipped = TRUE]
  /\ UNCHANGED <<obj, chan, bl, up, stopping, mem, wk, now, bud, gh>>
  /\ UNCHANGED conf

CWaitTimeout ==   \* the consistency timeout has elapsed since the patch: assume consistency
  /\ up /\ pc = "cwait" /\ ~wk.pr /\ now >= cyc.wake /\ "late" \in Doors
  /\ pc' = "plan" /\ cyc' = [EnterHandlers(cyc.s, mem, cyc.reason, cyc.fns) EXCEPT !.sdelays = cyc.sdelays]
  /\ gh' = [gh EXCEPT !.staleview = @ \/ (cyc.reason \in HandlerReasons)]
  /\ UNCHANGED <<obj, chan, bl, up, stopping, mem, wk, now, bud>>
  /\ UNCHANGED conf

(***************************************************************************)
(* One handler invocation: execution.execute_handler_once                  *)
(***************************************************************************)
\* Handlers may return results (optional conf.res = [ssub, vals]): a result is delivered into status.<handler id> with the cycle's patch;
\* on a kind with the status subresource (conf.res.ssub) the status part of the patch is a second merge request, to /status.
HasR == "res" \in DOMAIN conf
SSub == HasR /\ conf.res.ssub
ResOf(o) == IF "res" \in DOMAIN o THEN o.res ELSE 0
Outcomes == {[k |-> "ok", d |-> 0], [k |-> "perm", d |-> 0], [k |-> "exc", d |-> 0]} \cup {[k |-> "temp", d |-> d] : d \in Delays}
            \cup (IF HasR THEN {[k |-> "ok", d |-> 0, res |-> v] : v \in conf.res.vals} ELSE {})

After(p, h, o) ==       \* HandlerState.with_outcome + the look-ahead of the retries limit and of the timeout
  LET r2 == p.r + 1
      last == HC[h].retries # 0 /\ r2 >= HC[h].retries
      late(d) == TimeoutOf(h) > 0 /\ (now - p.first) + d >= TimeoutOf(h)      \* the next attempt would start after the timeout
  IN CASE o.k = "ok"   -> [p EXCEPT !.st = "succ", !.r = r2, !.until = 0]
       [] o.k = "perm" -> [p EXCEPT !.st = "fail", !.r = r2, !.until = 0]
       [] o.k = "temp" -> IF last \/ late(o.d) THEN [p EXCEPT !.st = "fail", !.r = r2, !.until = 0]
                          ELSE [p EXCEPT !.st = "retry", !.r = r2, !.until = now + o.d]
       [] o.k = "exc"  -> IF HC[h].mode = "ignored" THEN [p EXCEPT !.st = "succ", !.r = r2, !.until = 0]
                          ELSE IF HC[h].mode = "permanent" \/ last \/ late(HC[h].backoff) THEN [p EXCEPT !.st = "fail", !.r = r2, !.until = 0]
                          ELSE [p EXCEPT !.st = "retry", !.r = r2, !.until = now + HC[h].backoff]
\* the strict check before an attempt: the handler has timed out (e.g. over a downtime) - it fails for good without being called
TimedOut(h, p) == \/ TimeoutOf(h) > 0 /\ now - p.first >= TimeoutOf(h)
                  \* ... or has used up its retries (reached without the look-ahead by a parent whose sub-handlers kept it waiting)
                  \/ HC[h].retries # 0 /\ p.r >= HC[h].retries

LastOf(h, p) == [h |-> h, retry |-> p.r, reason |-> cyc.reason, rv |-> cyc.s.rv,
                 deleting |-> cyc.s.deleting, blocked |-> Blocked(cyc.s),
                 wasfinished |-> Finished(cyc.s.prog[h]), recr |-> cyc.s.prog[h].r,
                 due |-> cyc.s.prog[h].until, kinds |-> HC[h].reasons,
                 ownrv |-> gh.ownrv, owntime |-> gh.owntime]
\* the bookkeeping of the properties when handler h ends an invocation with record q (outcome kind k)
GhAfter(h, q, k) ==
  [gh EXCEPT !.succ[h] = IF q.st = "succ" /\ k = "ok" THEN @ + 1 ELSE @,
             !.seen[h] = IF q.st = "succ" THEN cyc.s.ess ELSE @,
             !.cseen[h] = IF q.st = "succ" THEN cyc.s.ess ELSE @,
             !.deldone = IF cyc.reason = "delete" /\ Finished(q) THEN @ \cup {h} ELSE @,
             \* F9: a deletion handler that had finished in an earlier, closed deletion cycle is run again (the object is still held)
             !.delagain = @ \/ (cyc.reason = "delete" /\ h \in gh.deldone),
             !.resumed[h] = IF "resume" \in HC[h].reasons /\ HC[h].reasons = {"resume"} /\ Finished(q) THEN @ + 1 ELSE @]
InvokeTimeout(h) ==
  /\ up /\ pc = "plan" /\ cyc.plan # <<>> /\ Head(cyc.plan) = h /\ TimedOut(h, cyc.np[h])
  /\ LET p == cyc.np[h]  q == [p EXCEPT !.st = "fail", !.r = p.r + 1, !.until = 0]
     IN cyc' = [cyc EXCEPT !.plan = Tail(@), !.np[h] = q, !.inv = @ \cup {h}] /\ gh' = GhAfter(h, q, "timeout")
  /\ UNCHANGED <<obj, chan, bl, up, stopping, mem, wk, pc, now, bud>>
InvokeWith(h, o) ==
  /\ up /\ pc = "plan" /\ cyc.plan # <<>> /\ Head(cyc.plan) = h /\ ~TimedOut(h, cyc.np[h])
  /\ (o.k # "ok" => bud.fails < MaxFails)
  /\ LET p == cyc.np[h]
         q == After(p, h, o)
     IN IF SubOf(h) # <<>> /\ o.k = "ok"
        THEN \* the function has registered its sub-handlers and returned: they are executed in its context (subhandling.execute):
             \* their records are those of the view (new ones are created for the cause), the lifecycle picks among the awake ones
             LET S == Range(SubOf(h))
                 rec(x) == IF cyc.s.prog[x].st = "none" THEN [st |-> "pend", r |-> 0, pu |-> cyc.reason, until |-> 0, first |-> FirstNow] ELSE cyc.s.prog[x]
                 np1 == [x \in H |-> IF x \in S THEN rec(x) ELSE cyc.np[x]]
                 todo == {x \in S : Awake(np1[x])}
             IN /\ cyc' = [cyc EXCEPT !.np = np1, !.sub = [p |-> h, plan |-> PlanIn(SubOf(h), todo, np1)], !.last = LastOf(h, p)]
                /\ pc' = "subs" /\ UNCHANGED <<bud, gh>>
        ELSE /\ cyc' = [cyc EXCEPT !.plan = Tail(@), !.np[h] = q, !.inv = @ \cup {h}, !.last = LastOf(h, p),
                                   !.res[h] = IF o.k = "ok" /\ ResOf(o) # 0 THEN ResOf(o) ELSE @]
             /\ bud' = [bud EXCEPT !.fails = IF o.k = "ok" THEN @ ELSE @ + 1]
             /\ gh' = GhAfter(h, q, o.k)
             /\ UNCHANGED pc
  /\ UNCHANGED <<obj, chan, bl, up, stopping, mem, wk, now>>
InvokeSub(x, o) ==    \* one sub-handler runs
  /\ up /\ pc = "subs" /\ cyc.sub.plan # <<>> /\ Head(cyc.sub.plan) = x
  /\ (o.k # "ok" => bud.fails < MaxFails)
  /\ LET p == cyc.np[x]  q == After(p, x, o)
     IN /\ cyc' = [cyc EXCEPT !.sub.plan = Tail(@), !.np[x] = q, !.inv = @ \cup {x}, !.last = LastOf(x, p)]
        /\ bud' = [bud EXCEPT !.fails = IF o.k = "ok" THEN @ ELSE @ + 1]
        /\ gh' = GhAfter(x, q, o.k)
  /\ UNCHANGED <<obj, chan, bl, up, stopping, mem, wk, pc, now>>
ParentEnd ==          \* the sub-handlers chosen for this round have run: done if all of them have finished, else HandlerChildrenRetry
  /\ up /\ pc = "subs" /\ cyc.sub.plan = <<>>
  /\ LET h == cyc.sub.p  p == cyc.np[h]
         open == {x \in Range(SubOf(h)) : ~Finished(cyc.np[x])}
         q == IF open = {} THEN [p EXCEPT !.st = "succ", !.r = p.r + 1, !.until = 0]
              ELSE [p EXCEPT !.st = "retry", !.r = p.r + 1, !.until = now + MinOf({MaxN(cyc.np[x].until, now) - now : x \in open})]
     IN /\ cyc' = [cyc EXCEPT !.plan = Tail(@), !.np[h] = q, !.inv = @ \cup {h}, !.sub = [p |-> "none", plan |-> <<>>]]
        /\ gh' = GhAfter(h, q, "ok")
  /\ pc' = "plan"
  /\ UNCHANGED <<obj, chan, bl, up, stopping, mem, wk, now, bud>>
Invoke == /\ \/ \E h \in H : \E o \in Outcomes : InvokeWith(h, o) \/ InvokeSub(h, o)
             \/ \E h \in H : InvokeTimeout(h)
             \/ ParentEnd
          /\ UNCHANGED conf

FnsApply(fins, fns) ==      \* finalizers.block_deletion / allow_deletion applied in the order they were appended
  LET a == IF "add" \in fns /\ K \notin Range(fins) THEN Append(fins, K) ELSE fins
  IN IF "del" \in fns THEN Remove(a, K) ELSE a

(***************************************************************************)
(* process_changing_cause (tail), the release decision, application.apply  *)
(***************************************************************************)
HasOps(fins, fns) == fns # {} /\ FnsApply(fins, fns) # fins     \* the JSON-patch computed on a body is not empty

ProcFinish ==
  /\ up /\ pc = "plan" /\ cyc.plan = <<>>
  /\ LET s == cyc.s
         handled == cyc.reason \in HandlerReasons
         done == handled /\ cyc.sel # {} /\ \A h \in cyc.sel : Finished(cyc.np[h])
         skip == handled /\ cyc.sel = {}
         closing == done \/ skip
         \* State.store: records that differ from what the view had; State.purge: owned handlers (None)
         np == IF handled THEN cyc.np ELSE s.prog
         \* State.store writes the records that differ from the view's; storage.purge sets a key to None only
         \* if the view has it (and drops a record stored a moment ago in the same patch otherwise)
         progPatch == [h \in H |-> IF ~handled THEN "keep"
                                   ELSE IF done THEN (IF s.prog[h].st # "none" THEN "purge" ELSE "keep")
                                   ELSE IF np[h] # s.prog[h] THEN "store"
                                   ELSE IF cyc.purge /\ s.prog[h].st # "none" THEN "purge" ELSE "keep"]
         progChanged == \E h \in H : progPatch[h] # "keep"
         lhNew == IF closing /\ s.ess # s.lh THEN s.ess ELSE 0
         cdelays == (IF handled THEN {MaxN(np[h].until, now) - now : h \in {x \in cyc.sel : ~Finished(np[x])}} ELSE {})
                    \cup cyc.sdelays           \* ... and what the stopping of daemons asked for
         release == s.type # "DELETED" /\ s.deleting /\ Blocked(s) /\ cdelays = {} /\ ~cyc.skipped
         fns == cyc.fns \cup (IF release THEN {"del"} ELSE {})
         resAny == (\E h \in H : cyc.res[h] # 0) \/ cyc.evres # 0          \* deliver_results: status.<id> = result, whatever is there
         nonempty == progChanged \/ lhNew # 0 \/ fns # {} \/ resAny
         \* apply(): a non-empty patch also clears the touch dummy -- if the view has one
         \* (with the status subresource the status part travels in a request of its own: hasMerge is about the body part)
         hasMerge == progChanged \/ lhNew # 0 \/ (nonempty /\ s.dummy) \/ (resAny /\ ~SSub)
         m2 == IF closing THEN [mem EXCEPT !.fho = TRUE] ELSE mem
     IN
     /\ mem' = IF s.type = "DELETED" THEN mem ELSE m2
     /\ IF s.type = "DELETED"
        THEN pc' = "post" /\ cyc' = [cyc EXCEPT !.gone = TRUE]     \* nothing is applied for DELETED events
        ELSE IF nonempty
        THEN /\ pc' = IF hasMerge THEN "r1" ELSE IF resAny /\ SSub THEN "r2" ELSE IF HasOps(s.fins, fns) THEN "r3" ELSE "post"
                   \* no merge part: the JSON-patch tests the view's own version; no ops: no request at all
             /\ cyc' = [cyc EXCEPT !.req = [k |-> "patch", prog |-> progPatch, np |-> np, lh |-> lhNew, fns |-> fns,
                                            closing |-> closing, done |-> done],
                                   !.delays = cdelays, !.fns = fns, !.fresh = s.rv, !.ffins = s.fins]
        ELSE IF cdelays # {} /\ MinOf(cdelays) > 0
        THEN pc' = "sleep" /\ cyc' = [cyc EXCEPT !.wake = now + MinOf(cdelays), !.delays = cdelays]
        ELSE IF cdelays # {}
        THEN pc' = "touch" /\ cyc' = [cyc EXCEPT !.req = [k |-> "touch"], !.delays = cdelays]
        ELSE pc' = "post" /\ UNCHANGED cyc
  /\ UNCHANGED <<obj, chan, bl, up, stopping, wk, now, bud, gh>>
  /\ UNCHANGED conf

\* the merge-patch request reaches the server (always sent when the patch is not empty: it clears the touch dummy)
SrvMerge ==
  /\ pc = "r1" /\ up
  /\ IF ~obj.exists
     THEN pc' = "post" /\ cyc' = [cyc EXCEPT !.rv = 0, !.rem = {}, !.delays = {}] /\ UNCHANGED <<obj, chan, gh>>   \* 404: ends silently
     ELSE LET r == cyc.req
              newprog == [h \in H |-> CASE r.prog[h] = "store" -> r.np[h]
                                        [] r.prog[h] = "purge" -> NoRec
                                        [] OTHER -> obj.prog[h]]
              o2 == [obj EXCEPT !.prog = newprog, !.lh = IF r.lh # 0 THEN r.lh ELSE @,
                                !.dummy = IF cyc.s.dummy THEN 0 ELSE @,    \* cleared only if the view showed it
                                !.res = IF SSub THEN @ ELSE [h \in H |-> IF cyc.res[h] # 0 THEN cyc.res[h] ELSE @[h]],
                                !.evres = IF SSub \/ cyc.evres = 0 THEN @ ELSE cyc.evres]
              \* (a record written after an invocation carries new timestamps: the object changes even if the abstract record is the same)
              changed == o2 # obj \/ \E h \in cyc.inv : r.prog[h] = "store"
          IN /\ IF changed THEN Commit(o2) ELSE UNCHANGED <<obj, chan>>
             /\ cyc' = [cyc EXCEPT !.fresh = obj'.rv, !.rv = obj'.rv, !.ffins = obj'.fins]
             /\ pc' = IF SSub /\ ((\E h \in H : cyc.res[h] # 0) \/ cyc.evres # 0) THEN "r2" ELSE "r1done"
             /\ gh' = [gh EXCEPT !.succ = IF r.closing /\ changed THEN [h \in H |-> 0] ELSE @,
                                 \* F8: the cycle is closed on the essence of THIS view; a handler of the cycle may have seen an older one
                                 !.f8 = IF r.closing /\ changed THEN \E h \in H : gh.cseen[h] \notin {0, cyc.s.ess} ELSE @,
                                 !.cseen = IF r.closing /\ changed THEN [h \in H |-> 0] ELSE @,
                                 !.blindwrite = @ \/ (~cyc.s.match /\ (o2.prog # obj.prog \/ o2.lh # obj.lh))]
  /\ UNCHANGED <<bl, up, stopping, mem, wk, now, bud>>
  /\ UNCHANGED conf

\* the status part of the patch of a kind with the status subresource: a second merge request, to /status (nothing but the
\* results of this cycle's handlers is in it); the version it gives is the one the worker will expect
SrvStatus ==
  /\ pc = "r2" /\ up
  /\ IF ~obj.exists
     THEN pc' = "post" /\ cyc' = [cyc EXCEPT !.rv = 0, !.rem = {}, !.delays = {}] /\ UNCHANGED <<obj, chan>>      \* 404: ends silently
     ELSE LET o2 == [obj EXCEPT !.res = [h \in H |-> IF cyc.res[h] # 0 THEN cyc.res[h] ELSE @[h]],
                                !.evres = IF cyc.evres = 0 THEN @ ELSE cyc.evres]
          IN /\ IF o2 # obj THEN Commit(o2) ELSE UNCHANGED <<obj, chan>>
             /\ cyc' = [cyc EXCEPT !.fresh = obj'.rv, !.rv = obj'.rv, !.ffins = obj'.fins]
             /\ pc' = "r1done"
  /\ UNCHANGED <<bl, up, stopping, mem, wk, now, bud, gh>>
  /\ UNCHANGED conf

\* the response of the merge arrives; the JSON-patch (if any op results) is computed on the returned body and sent
Reply1 ==
  /\ pc = "r1done" /\ up
  /\ pc' = IF HasOps(cyc.ffins, cyc.fns) THEN "r3" ELSE "post"
  /\ UNCHANGED <<obj, chan, bl, up, stopping, mem, wk, cyc, now, bud, gh>>
  /\ UNCHANGED conf

SrvJson ==
  /\ pc = "r3" /\ up
  /\ IF ~obj.exists
     THEN pc' = "post" /\ cyc' = [cyc EXCEPT !.rv = 0, !.rem = {}, !.delays = {}] /\ UNCHANGED <<obj, chan, gh>>
     ELSE IF obj.rv # cyc.fresh
     THEN \* test resourceVersion fails: 422, nothing is written, the transformation is carried forward
          /\ pc' = "post" /\ cyc' = [cyc EXCEPT !.rem = cyc.fns] /\ UNCHANGED <<obj, chan, gh>>
     ELSE LET f2 == FnsApply(obj.fins, cyc.fns)
          IN /\ IF f2 # obj.fins
                THEN /\ Commit([obj EXCEPT !.fins = f2])
                     \* a release that comes early.  One shape of it is a known finding (F38): the removal was decided on a view in which the
                     \* object did not match, and a merge-patch of the same cycle (a result, a purge) moved the base of the JSON-patch's version
                     \* test from that view to the merged body -- changes made between the view and the merge (the object matches again) go unseen
                     /\ LET e == obj.deleting /\ K \in Range(obj.fins) /\ K \notin Range(f2)
                                  /\ obj.match /\ (~(Mandatory \subseteq gh.deldone) \/ \E h \in DHs : Entitled(h))
                            k == ~cyc.s.match /\ cyc.fresh # cyc.s.rv
                        IN gh' = [gh EXCEPT !.early = @ \/ (e /\ ~k), !.early38 = @ \/ (e /\ k),
                                         !.foreignlost = @ \/ (Remove(f2, K) # Remove(obj.fins, K))]
                ELSE UNCHANGED <<obj, chan, gh>>
             /\ cyc' = [cyc EXCEPT !.rv = IF obj'.deleting /\ obj'.fins = <<>> THEN NeverRv ELSE obj'.rv, !.rem = {}]
             /\ pc' = "post"
  /\ UNCHANGED <<bl, up, stopping, mem, wk, now, bud>>
  /\ UNCHANGED conf

\* back in apply(): with a patch applied there is no sleep (its echo re-triggers the cycle); the processor returns
\* the patched version to the worker, which restarts the consistency waiting.
\* A patch that the server answered with the version the view already had has changed nothing (the same results as before, say):
\* no echo will come, so the delays are slept as if there had been no patch (since fix F35; NoopSleeps = FALSE is the code before it,
\* see MC_Handling_res_ev_f35.cfg: a handler waiting for its retry is then never called again).
NoopSleeps == TRUE
\* Such a patch gives nothing to expect either: the version it returns is the one already seen, and it will not come again (since fix
\* F36; NoopExpects = TRUE is the code before it, see MC_Handling_res_ev_f36.cfg: the worker then waits for that version in vain, and
\* with a patch accumulated in every cycle even the elapsed timeout does not help -- a change made meanwhile is not handled).
NoopExpects == FALSE
RetRv == IF ~NoopExpects /\ cyc.rv = cyc.s.rv THEN 0 ELSE cyc.rv      \* what the processor returns to the worker
\* (a zero delay is not slept after a patch, and not touched either -- as before)
NoopPatch == NoopSleeps /\ cyc.delays # {} /\ MinOf(cyc.delays) > 0 /\ cyc.rv # 0 /\ cyc.rv = cyc.s.rv
Post ==
  /\ pc = "post" /\ up /\ ~NoopPatch
  /\ mem' = IF cyc.gone THEN mem ELSE [mem EXCEPT !.rem = cyc.rem]
  /\ LET wk1 == IF RetRv # 0 /\ CTimeout > 0 THEN [wk EXCEPT !.exp = RetRv, !.ctime = now + CTimeout] ELSE wk
     IN wk' = [wk1 EXCEPT !.since = IF wk1.exp # 0 THEN now ELSE 0, !.lost = IF wk1.exp # wk.exp THEN 0 ELSE @]      \* (the worker goes waiting for the next event)
  /\ pc' = "idle" /\ cyc' = NoCyc
  /\ gh' = IF RetRv # 0 /\ RetRv # NeverRv THEN [gh EXCEPT !.ownrv = RetRv, !.owntime = now] ELSE gh
  /\ UNCHANGED <<obj, chan, bl, up, stopping, now, bud>>
  /\ UNCHANGED conf

PostNoop ==       \* the patch was a no-op: sleep as without a patch
  /\ pc = "post" /\ up /\ NoopPatch
  /\ pc' = "sleep" /\ cyc' = [cyc EXCEPT !.wake = now + MinOf(cyc.delays)]
  /\ UNCHANGED <<obj, chan, bl, up, stopping, mem, wk, now, bud, gh>>
  /\ UNCHANGED conf

SleepWake ==      \* new events arrived: the sleep is interrupted, no touch
  /\ up /\ pc = "sleep" /\ wk.pr
  /\ pc' = "post" /\ cyc' = [cyc EXCEPT !.delays = {}]
  /\ UNCHANGED <<obj, chan, bl, up, stopping, mem, wk, now, bud, gh>>
  /\ UNCHANGED conf

\* a worker that has got nothing for the idle timeout -- and not before the consistency time of a version it expects -- ends; the
\* next event starts a new one, which expects nothing (only an expectation makes the difference: nothing else is the worker's own)
WorkerExit ==
  /\ up /\ pc = "idle" /\ bl = <<>> /\ ~wk.eos /\ wk.exp # 0
  /\ now >= wk.ctime /\ now >= wk.since + IdleT
  /\ wk' = [FreshWk EXCEPT !.lost = wk.exp]
  /\ UNCHANGED <<obj, chan, bl, up, stopping, mem, pc, cyc, now, bud, gh>>
  /\ UNCHANGED conf

SleepExpire ==    \* slept in full: touch the object to trigger the next cycle
  /\ up /\ pc = "sleep" /\ ~wk.pr /\ now >= cyc.wake
  /\ pc' = "touch" /\ cyc' = [cyc EXCEPT !.req = [k |-> "touch"]]
  /\ UNCHANGED <<obj, chan, bl, up, stopping, mem, wk, now, bud, gh>>
  /\ UNCHANGED conf

SrvTouch ==
  /\ pc = "touch" /\ up
  /\ IF ~obj.exists
     THEN pc' = "post" /\ UNCHANGED <<obj, chan, gh, cyc>>
     ELSE /\ Commit([obj EXCEPT !.dummy = now + 1])
          /\ cyc' = [cyc EXCEPT !.rv = obj'.rv, !.delays = {}]
          \* (a daemon that is being stopped because the object no longer matches is polled through touches: the framework's own
          \* unfinished business with the object, like the withdrawal of its finalizer)
          /\ gh' = [gh EXCEPT !.touched = TRUE, !.blindwrite = @ \/ (~cyc.s.match /\ cyc.sdelays = {})]
          /\ pc' = "post"
  /\ UNCHANGED <<bl, up, stopping, mem, wk, now, bud>>
  /\ UNCHANGED conf

(***************************************************************************)
(* Daemons and timers: the user's functions, the exiting daemon killer      *)
(* (see Spawning.tla for the same machinery with its pausing branch)        *)
(***************************************************************************)
DOnly == UNCHANGED <<obj, chan, bl, up, stopping, wk, pc, cyc, now, bud, gh>> /\ UNCHANGED conf
DEnter(h) ==      \* the guarding task starts and calls the function
  /\ up /\ h \in DHs /\ mem.run[h].on /\ ~mem.run[h].started /\ ~IsTimer(h)
  /\ SetRun(h, [mem.run[h] EXCEPT !.started = TRUE]) /\ DOnly
DSeeFlag(h) ==
  /\ up /\ h \in DHs /\ Alive(h) /\ mem.run[h].flag /\ ~mem.run[h].seen /\ ~IsTimer(h)
  /\ SetRun(h, [mem.run[h] EXCEPT !.seen = TRUE]) /\ DOnly
DCancelled(h) ==  \* a requested cancellation reaches the coroutine (a thread cannot be cancelled)
  /\ up /\ h \in DHs /\ Alive(h) /\ mem.run[h].creq /\ ~DH[h].sync /\ ~IsTimer(h)
  /\ SetRun(h, [mem.run[h] EXCEPT !.cdel = TRUE, !.creq = FALSE]) /\ DOnly
DExit(h) ==       \* the function returns or raises ...
  /\ up /\ h \in DHs /\ Alive(h) /\ ~IsTimer(h)
  /\ SetRun(h, [mem.run[h] EXCEPT !.exited = TRUE]) /\ DOnly
REnd(h) ==        \* ... and its guarding task runs its finally: stopped forever if it ended with no stop flag; unregistered
  /\ up /\ h \in DHs /\ mem.run[h].on /\ mem.run[h].exited
  /\ mem' = [mem EXCEPT !.run[h] = NoRun, !.forever = IF ~mem.run[h].flag THEN @ \cup {h} ELSE @]
  /\ DOnly
\* daemon_killer's finally-block when the operator exits: a stop_daemon() for every instance in sight
KillerExit ==
  /\ up /\ gh.exiting /\ ~gh.killer /\ DReg # {}
  /\ mem' = [mem EXCEPT !.run = [h \in DHs |-> IF mem.run[h].on
                                               THEN (IF IsTimer(h) THEN NoRun
                                                     ELSE [mem.run[h] EXCEPT !.flag = TRUE, !.when = IF mem.run[h].flag THEN @ ELSE now, !.sd = @ \cup {now}])
                                               ELSE mem.run[h]]]
  /\ gh' = [gh EXCEPT !.killer = TRUE]
  /\ UNCHANGED <<obj, chan, bl, up, stopping, wk, pc, cyc, now, bud>>
  /\ UNCHANGED conf
KCancel(h) ==     \* stop_daemon(): after the backoff on its own clock, cancel (if there is a cancellation timeout)
  /\ up /\ h \in DHs /\ mem.run[h].on /\ DH[h].timeout > 0
  /\ \E t \in mem.run[h].sd : now >= t + DH[h].backoff /\ SetRun(h, [mem.run[h] EXCEPT !.sd = @ \ {t}, !.cset = TRUE, !.creq = TRUE])
  /\ DOnly
KDrop(h) ==
  /\ up /\ h \in DHs /\ mem.run[h].on /\ DH[h].timeout = 0
  /\ \E t \in mem.run[h].sd : now >= t + DH[h].backoff /\ SetRun(h, [mem.run[h] EXCEPT !.sd = @ \ {t}])
  /\ DOnly
\* the watcher has ended: the workers are cancelled when the exit timeout has passed (a sleeping one is not woken before)
WorkerAbort ==
  /\ up /\ stopping /\ HasD /\ now >= gh.stopat + conf.exitto /\ (pc = "sleep" \/ bl # <<>>) /\ pc \in {"idle", "sleep"}
  /\ pc' = "idle" /\ cyc' = NoCyc /\ bl' = <<>>
  /\ UNCHANGED <<obj, chan, up, stopping, mem, wk, now, bud, gh>>
  /\ UNCHANGED conf
DaemonOpStep == (\E h \in DHs : StopSet(h) \/ Stage(h) \/ StageC(h) \/ KCancel(h) \/ KDrop(h)) \/ Decide \/ KillerExit \/ WorkerAbort
DaemonUrgent == \E h \in DHs : DEnter(h) \/ REnd(h) \/ DCancelled(h)
DStep == \E h \in DHs : DEnter(h) \/ DSeeFlag(h) \/ DCancelled(h) \/ DExit(h) \/ REnd(h)

(***************************************************************************)
(* Time: the clock may not pass a moment at which the operator has         *)
(* something to do.                                                        *)
(***************************************************************************)
OpStep == ProcBegin \/ CWaitWoken \/ CWaitTimeout \/ Invoke \/ ProcFinish \/ SrvMerge \/ SrvStatus \/ Reply1 \/ SrvJson \/ Post \/ PostNoop
          \/ SleepWake \/ SleepExpire \/ SrvTouch \/ DaemonOpStep
\* Not urgent: Down (the process exits some time after a graceful stop) and Deliver (how long the stream
\* takes to hand over a committed change -- the echo delay of C07 -- is up to the environment)
Urgent == OpStep \/ DaemonUrgent \/ (Stop /\ DReg # {})      \* (the stream of an exiting operator is closed in the same instant)
Tick ==
  /\ now < Horizon /\ ~ENABLED Urgent
  /\ ("late" \notin Doors => chan = <<>>)      \* door closed: the stream hands changes over without delay
  /\ now' = now + 1
  /\ UNCHANGED <<obj, chan, bl, up, stopping, mem, wk, pc, cyc, bud, gh>>
  /\ UNCHANGED conf

EnvStep == (\E e \in EssVals : UserEdit(e) \/ Toggle(e)) \/ UserDelete \/ (\E f \in Foreign : ForeignAdd(f) \/ ForeignDel(f))
           \/ Kill \/ Stop \/ ExitBegin \/ Start \/ Relist
Next == OpStep \/ DStep \/ Deliver \/ EnvStep \/ Down \/ Tick \/ WorkerExit
SafeSpec == Init /\ [][Next]_vars
Spec == Init /\ [][Next]_vars /\ WF_vars(OpStep) /\ WF_vars(Deliver) /\ WF_vars(Tick) /\ WF_vars(Start) /\ WF_vars(WorkerExit)

(***************************************************************************)
(* Properties                                                              *)
(***************************************************************************)
L == cyc.last
\* C02: the record in the processed view governs the invocation
InvokeGoverned == L.h # "none" => (~L.wasfinished /\ L.retry = L.recr /\ L.due <= now)
\* C05 (system level): what may be invoked on which object state
InvokeCauseOk ==
  L.h # "none" =>
    /\ (L.reason \in {"create", "update"} => ~L.deleting)
    /\ (L.reason = "delete" => L.deleting /\ L.blocked)
    /\ L.reason \in HandlerReasons
    /\ (L.kinds = {"resume"} /\ L.deleting => HC[L.h].deleted)
\* C02: absent the doors, every handler succeeds at most once per cycle
AtMostOnce == gh.staleview \/ ~obj.exists \/ \A h \in H : gh.succ[h] <= 1    \* (a vanished object: its patch got 404)
\* C02: the cycle is closed exactly when every selected handler has finished
CloseExactlyWhenDone ==
  (pc = "r1" /\ cyc.req.k = "patch") =>
     /\ (cyc.req.lh # 0 => cyc.req.closing)
     /\ (cyc.req.closing => \A h \in cyc.sel : Finished(cyc.np[h]))
     /\ (cyc.req.done => \A h \in H : cyc.req.prog[h] \in {"purge", "keep"})
\* C07: a change handler runs on a view at least as new as the worker's own last patch, or after the timeout
FreshOrTimedOut == L.h # "none" => (L.ownrv = 0 \/ L.rv >= L.ownrv \/ CTimeout = 0 \/ now >= L.owntime + CTimeout)
\* C11: the retries limit bounds the recorded attempts; a handler is never invoked before its delay has elapsed
\* (a record may count one more attempt than the limit: the one that was refused without calling the handler - reached by a parent
\* whose sub-handlers kept it waiting, where there is no look-ahead)
RetriesBounded == /\ \A h \in H : HC[h].retries # 0 => (obj.prog[h].r <= HC[h].retries \/ (obj.prog[h].r = HC[h].retries + 1 /\ obj.prog[h].st = "fail"))
                  /\ (L.h # "none" /\ HC[L.h].retries # 0 => L.retry < HC[L.h].retries)
\* C11: no attempt of a handler with a timeout starts later than the timeout after its first one
NoLateAttempt == L.h # "none" => (TimeoutOf(L.h) = 0 \/ now - cyc.s.prog[L.h].first < TimeoutOf(L.h) \/ cyc.s.prog[L.h].st = "none")
\* C15 (stealth): processing a view that no handler matches writes nothing but the withdrawal of the finalizer
\* (together with which the framework's own touch marker may be cleared)
Stealth == ~gh.blindwrite
\* C09 (daemons beside change handlers): cancelled only after the backoff since the flag; cancelled / abandoned / seen only if flagged
DaemonStages == \A h \in DHs : LET r == mem.run[h] IN
                  /\ ((r.cset /\ ~gh.exiting) => now >= r.when + DH[h].backoff)
                  /\ (((r.cset /\ ~gh.exiting) \/ r.aband \/ r.seen \/ r.sd # {}) => r.flag)
\* C06
NeverEarly == ~gh.early
ForeignUntouched == ~gh.foreignlost
\* C14: resume-only handlers complete at most once per process
ResumeOnce == gh.staleview \/ \A h \in H : gh.resumed[h] <= 1
\* C15 (stealth): an object that no handler matches is never written to -- except to withdraw the finalizer
Quiescent == ~ENABLED Urgent /\ ~ENABLED Tick
Released == obj.deleting /\ K \notin Range(obj.fins)      \* marked for deletion and no longer held by the framework
Converged == /\ obj.exists => (obj.match /\ Registered # {} /\ ~Released => obj.lh = obj.ess) /\ \A h \in H : obj.prog[h] = NoRec
             /\ pc = "idle" /\ mem.rem = {}
\* C03: a terminal state of the bounded model (budgets spent, nothing enabled) is a converged one
\* (a process that was asked to stop is not at rest: its workers are being drained and it goes down)
Terminal == up /\ ~stopping /\ ~ENABLED Urgent /\ chan = <<>> /\ bl = <<>> /\ now = Horizon /\ pc \notin {"sleep", "cwait"}
\* Known families of non-convergence (genuine findings, see known_findings.json): each is a narrow ghost predicate
Family_F20 == gh.reverted         \* an edit that restores the last-handled essence (A -> B -> A): NOOP, records may stay
Family_F21 == gh.staleview        \* handlers ran on a view older than the own last write after the consistency timeout
Family_F22 == gh.leftunmatched    \* the object stopped matching the handlers' filters: the framework turns blind to it
\* an object marked for deletion that the framework's finalizer does not hold is "gone" for the framework: what a cycle left unfinished stays
\* a change that lands while an earlier handler's progress is being stored is absorbed into the last-handled state at the
\* close of the cycle: that handler has completed against an older state and is never invoked for the newer one
Family_F8 == gh.f8
\* F9: the deletion cycle is closed (records purged) while the object stays held for a daemon / timer that is still stopping; every
\* further event starts the deletion handlers anew -- with more than one step per cycle, as fast as the API answers
Family_F9 == gh.delagain
Family_F38 == gh.early38       \* released early through a version test that a merge-patch of the same cycle had refreshed (see SrvJson)
Family_F31 == obj.exists /\ Released /\ \E h \in H : obj.prog[h] # NoRec
TerminalConverged == Terminal => (Converged \/ Family_F20 \/ Family_F21 \/ Family_F22 \/ Family_F31)
Witness_F20 == ~(Terminal /\ ~Converged /\ Family_F20 /\ ~Family_F21 /\ ~Family_F22)
Witness_F21 == ~(Terminal /\ ~Converged /\ Family_F21 /\ ~Family_F20 /\ ~Family_F22)
Witness_F22 == ~(Terminal /\ ~Converged /\ Family_F22 /\ ~Family_F20 /\ ~Family_F21)
NoF38 == ~Family_F38        \* must FAIL (MC_Handling_neg_f38): the known early release is a behaviour of the model, too
FollowsMatching ==    \* C06: at rest the finalizer is on the object iff handlers require it
  (up /\ ~ENABLED Urgent /\ pc = "idle" /\ obj.exists /\ ~obj.deleting /\ chan = <<>> /\ bl = <<>> /\ mem.known) =>
     (K \in Range(obj.fins) <=> (obj.match /\ (Mandatory # {} \/ DReg \ mem.forever # {})))
FinalStateSeen == (up /\ Converged /\ ~ENABLED Urgent /\ obj.exists /\ obj.match /\ bl = <<>> /\ chan = <<>>) =>
                    \A h \in H : (gh.seen[h] # 0 /\ HC[h].reasons \cap {"create", "update"} # {}) => gh.seen[h] = obj.ess
Termination == <>[](~ENABLED OpStep)
=============================================================================
