------------------------------ MODULE Webhooks ------------------------------
(***************************************************************************)
(* What the operator ANNOUNCES to the cluster about its admission handlers *)
(* (admission.build_webhooks: the entries of a Validating / Mutating       *)
(* WebhookConfiguration that configuration_manager PATCHes) against what   *)
(* it SERVES (admission.serve_admission_request, Admission.tla).           *)
(*                                                                         *)
(* Two references, both functions of a declared handler and the resources  *)
(* the operator has found in the cluster:                                  *)
(*   Entry(h, resources, suffix, base)  the entry that must be announced;  *)
(*   Dispatch(entry, review)            what an API server does with an    *)
(*                                      entry: is the review sent to it?   *)
(*                                      (rules: group, version, resource   *)
(*                                      [/subresource], operations incl.   *)
(*                                      "*"; objectSelector expressions)   *)
(* and the law that ties the two sides of the operator together:           *)
(*   a review is sent to the webhook of handler h  <=>  h's declared       *)
(*   criteria that the cluster can evaluate hold for it (resource          *)
(*   selector, operation, subresource, label values / presence / absence)  *)
(* -- callbacks can only narrow that on the serving side.                  *)
(* The records come from the real build_webhooks; every review of a small  *)
(* grid is dispatched through the announced entry by this module.          *)
(***************************************************************************)
EXTENDS Naturals, Sequences, FiniteSets, TLC, Filters

Range(s) == {s[i] : i \in DOMAIN s}

\* ---- the API server's side (Kubernetes: admissionregistration.k8s.io/v1, RuleWithOperations, objectSelector)
ResName(rv) == IF rv.sub = "" THEN rv.plural ELSE rv.plural \o "/" \o rv.sub
\* "pods" is the main resource only; "pods/status" that subresource; "pods/*" every subresource of pods BUT NOT pods itself;
\* "*" every main resource; "*/*" everything
ResourceMatches(pat, rv) ==
  \/ pat = ResName(rv)
  \/ pat = "*/*"
  \/ pat = "*" /\ rv.sub = ""
  \/ pat = rv.plural \o "/*" /\ rv.sub # ""
  \/ pat = "*/" \o rv.sub /\ rv.sub # ""
RuleMatches(rule, rv) ==
  /\ \E g \in Range(rule.apiGroups) : g = "*" \/ g = rv.group
  /\ \E v \in Range(rule.apiVersions) : v = "*" \/ v = rv.version
  /\ \E p \in Range(rule.resources) : ResourceMatches(p, rv)
  /\ \E o \in Range(rule.operations) : o = "*" \/ o = rv.op
ExprHolds(e, labels) ==
  CASE e.operator = "Exists" -> e.key \in DOMAIN labels
    [] e.operator = "DoesNotExist" -> e.key \notin DOMAIN labels
    [] e.operator = "In" -> e.key \in DOMAIN labels /\ labels[e.key] \in Range(e.values)
    [] e.operator = "NotIn" -> e.key \notin DOMAIN labels \/ labels[e.key] \notin Range(e.values)
SelectorHolds(sel, labels) == sel.none \/ \A i \in DOMAIN sel.exprs : ExprHolds(sel.exprs[i], labels)
Dispatch(entry, rv) == (\E i \in DOMAIN entry.rules : RuleMatches(entry.rules[i], rv)) /\ SelectorHolds(entry.selector, rv.labels)

\* ---- the handler's declared criteria, as far as a cluster can evaluate them
\* h.labels: sequence of [key, kind ("eq" | "present" | "absent" | "callable"), value]
LabelHolds(c, labels) ==
  CASE c.kind = "eq" -> c.key \in DOMAIN labels /\ labels[c.key] = c.value
    [] c.kind = "present" -> c.key \in DOMAIN labels
    [] c.kind = "absent" -> c.key \notin DOMAIN labels
    [] c.kind = "callable" -> TRUE
\* the subresource as documented (docs/admission.rst): none = the main body only; "*" = the main body and any subresource
SubHolds(h, rv) == h.sub = "*" \/ h.sub = rv.sub
\* ... and as a rule "plural/*" is read by an API server: subresources only (the noted deviation W1)
SubHoldsAsAnnounced(h, rv) == IF h.sub = "*" THEN rv.sub # "" ELSE h.sub = rv.sub
Declared(h, res, rv, subOk(_, _)) ==
  /\ \E i \in DOMAIN res : /\ res[i].group = rv.group /\ res[i].version = rv.version /\ res[i].plural = rv.plural
                           /\ SelMatches(h.sel, res[i])
  /\ (h.ops = <<>> \/ rv.op \in Range(h.ops))
  /\ subOk(h, rv)
  /\ \A i \in DOMAIN h.labels : LabelHolds(h.labels[i], rv.labels)

\* ---- the entry that must be announced
ExpectedRules(h, res) ==
  LET idx == {i \in DOMAIN res : SelMatches(h.sel, res[i])}
  IN {[apiGroups |-> <<res[i].group>>, apiVersions |-> <<res[i].version>>,
       resources |-> << IF h.sub = "" THEN res[i].plural ELSE res[i].plural \o "/" \o h.sub >>,
       operations |-> IF h.ops = <<>> THEN <<"*">> ELSE h.ops, scope |-> "*"] : i \in idx}
ExpectedExprs(h) ==
  {[key |-> h.labels[i].key, operator |-> "Exists"] : i \in {j \in DOMAIN h.labels : h.labels[j].kind = "present"}}
  \cup {[key |-> h.labels[i].key, operator |-> "DoesNotExist"] : i \in {j \in DOMAIN h.labels : h.labels[j].kind = "absent"}}
  \cup {[key |-> h.labels[i].key, operator |-> "In", values |-> <<h.labels[i].value>>] : i \in {j \in DOMAIN h.labels : h.labels[j].kind = "eq"}}

\* ---- the verdict on one record: [h, res, suffix, base, entry (what the real build_webhooks announced for h; "absent" if none), reviews]
ClassifyWebhook(rec) ==
  LET h == rec.h e == rec.entry IN
  IF ~rec.announced THEN (IF rec.persistent_only /\ ~h.persistent THEN "ok" ELSE "handler_not_announced")
  ELSE IF rec.persistent_only /\ ~h.persistent THEN "non_persistent_handler_left_in_the_cleaned_configuration"
  ELSE IF Range(e.rules) # ExpectedRules(h, rec.res) \/ Len(e.rules) # Cardinality(ExpectedRules(h, rec.res)) THEN "rules_differ_from_the_declared_selector_operations_subresource"
  ELSE IF e.selector.none # (ExpectedExprs(h) = {}) THEN "object_selector_differs_from_the_label_criteria"
  ELSE IF ~e.selector.none /\ (Range(e.selector.exprs) # ExpectedExprs(h) \/ Len(e.selector.exprs) # Cardinality(ExpectedExprs(h))) THEN "object_selector_differs_from_the_label_criteria"
  ELSE IF e.sideEffects # (IF h.side_effects THEN "NoneOnDryRun" ELSE "None") THEN "wrong_side_effects"
  ELSE IF e.failurePolicy # (IF h.ignore_failures THEN "Ignore" ELSE "Fail") THEN "wrong_failure_policy"
  \* the path under which the API server calls is the handler's id: what the server side parses out of it is the id again
  ELSE IF rec.served_id # h.id THEN "the_announced_url_does_not_lead_back_to_the_handler"
  ELSE IF \E i \in DOMAIN rec.others : rec.others[i] = e.name THEN "two_handlers_announced_under_one_name"
  \* the law: sent to the webhook <=> the declared criteria (as an API server reads them) hold
  ELSE IF \E i \in DOMAIN rec.reviews : Dispatch(e, rec.reviews[i]) # Declared(h, rec.res, rec.reviews[i], SubHoldsAsAnnounced) THEN "dispatch_differs_from_the_declared_criteria"
  \* and never sent where the serving side would not take it (the documented reading of the subresource)
  ELSE IF \E i \in DOMAIN rec.reviews : Dispatch(e, rec.reviews[i]) /\ ~Declared(h, rec.res, rec.reviews[i], SubHolds) THEN "sent_where_the_handler_does_not_apply"
  ELSE IF \E i \in DOMAIN rec.reviews : ~Dispatch(e, rec.reviews[i]) /\ Declared(h, rec.res, rec.reviews[i], SubHolds) THEN "W1"
  ELSE "ok"
=============================================================================
