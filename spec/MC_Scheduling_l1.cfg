SPECIFICATION SSpec
CONSTANTS
  Jobs = {j1, j2, j3, j4}
  Limit = 1
INVARIANT WithinLimit
INVARIANT Fifo
INVARIANT StartedInOrder
INVARIANT NothingLeft
PROPERTY EveryJobServed
PROPERTY CloseReturns
CHECK_DEADLOCK FALSE
