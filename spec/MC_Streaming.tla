---------------------------- MODULE MC_Streaming ----------------------------
(* Streaming.tla closed with a server: a change log (versions 1..srv), compaction, the lines the server streams on the
   current connection, request faults, pauses.  The continuity laws of Watching.tla are checked on the implementation-
   shaped model: no version at or below the resume version is uncovered, and whenever the stream has caught up every
   change has reached the multiplexer or is covered by a listing taken at or after it. *)
EXTENDS Streaming
CONSTANTS MaxRV, MaxFaults, MaxPauses, FaultKinds, EndKinds
VARIABLES srv, compacted, sent, gone, got, base, nf, np, nw
svars == <<srv, compacted, sent, gone, got, base, nf, np, nw>>
mvars == <<vars, svars>>

ConfsA == {[backoff |-> 1, eb |-> <<1>>, ra |-> 2, cli |-> 0, ina |-> 0, limit |-> 0], [backoff |-> 2, eb |-> <<>>, ra |-> 2, cli |-> 3, ina |-> 2, limit |-> 0]}
MInit == Init /\ srv = 0 /\ compacted = 0 /\ sent = 0 /\ gone = FALSE /\ got = {} /\ base = 0 /\ nf = 0 /\ np = 0 /\ nw = 0

SChange == srv < MaxRV /\ srv' = srv + 1 /\ UNCHANGED <<vars, compacted, sent, gone, got, base, nf, np, nw>>
SCompact == compacted < srv /\ compacted' = srv /\ UNCHANGED <<vars, srv, sent, gone, got, base, nf, np, nw>>
SSpawn == Spawn /\ UNCHANGED svars
SList == ListOk(srv, <<>>) /\ base' = srv /\ UNCHANGED <<srv, compacted, sent, gone, got, nf, np, nw>>
SFail == \E f \in FaultKinds : nf < MaxFaults /\ nf' = nf + 1 /\ Fail(f) /\ UNCHANGED <<srv, compacted, sent, gone, got, base, np, nw>>
SOpen == /\ WatchOk(since, nw + 1) /\ nw' = nw + 1 /\ sent' = since /\ gone' = (since < compacted)
         /\ UNCHANGED <<srv, compacted, got, base, nf, np>>
Streaming1 == pc = "stream" /\ conn # 0
SLine == /\ Streaming1 /\ ~gone /\ sent < srv /\ Line(conn, "MODIFIED", sent + 1) /\ sent' = sent + 1
         /\ UNCHANGED <<srv, compacted, gone, got, base, nf, np, nw>>
S410 == Streaming1 /\ gone /\ Line(conn, "ERROR410", srv) /\ UNCHANGED svars
SBookmark == Streaming1 /\ ~gone /\ sent = srv /\ Line(conn, "BOOKMARK", srv) /\ UNCHANGED svars
SWeird == Streaming1 /\ nf < MaxFaults /\ nf' = nf + 1 /\ Line(conn, "SOMETHING", srv) /\ UNCHANGED <<srv, compacted, sent, gone, got, base, np, nw>>
SError == Streaming1 /\ nf < MaxFaults /\ nf' = nf + 1 /\ Line(conn, "ERROR", 0) /\ UNCHANGED <<srv, compacted, sent, gone, got, base, np, nw>>
SPut == pend # <<>> /\ Put(Head(pend)) /\ got' = got \cup {Head(pend)} /\ UNCHANGED <<srv, compacted, sent, gone, base, nf, np, nw>>
SEnd == \/ \E how \in EndKinds : Streaming1 /\ nf < MaxFaults /\ nf' = nf + 1 /\ End(conn, how) /\ UNCHANGED <<srv, compacted, sent, gone, got, base, np, nw>>
        \/ Streaming1 /\ End(conn, "clienttimeout") /\ UNCHANGED svars
        \/ Streaming1 /\ End(conn, "client-closed") /\ UNCHANGED svars
        \/ \E w \in old \cup mustclose : End(w, "client-closed") /\ UNCHANGED svars
SPause == \E on \in BOOLEAN : np < MaxPauses /\ np' = np + 1 /\ Pause("p", on) /\ UNCHANGED <<srv, compacted, sent, gone, got, base, nf, nw>>
SSilent == (InactiveCall \/ Notice \/ Tick) /\ UNCHANGED svars
MNext == SChange \/ SCompact \/ SSpawn \/ SList \/ SFail \/ SOpen \/ SLine \/ S410 \/ SBookmark \/ SWeird \/ SError \/ SPut \/ SEnd \/ SPause \/ SSilent
MSpec == MInit /\ [][MNext]_mvars

PendSet == {pend[i] : i \in DOMAIN pend}
Covered(v) == v \in got \/ v \in PendSet \/ v <= base
SinceNeverAhead == \A v \in 1..since : Covered(v)
NoSkip == (pc = "stream") => \A v \in 1..sent : Covered(v)
AllReach == (pc = "stream" /\ ~gone /\ sent = srv /\ pend = <<>>) => \A v \in 1..srv : v \in got \/ v <= base
\* the client's total timeout is the fake's behaviour, kopf's inactivity timer is kopf's: it is never overdue
InactivityKept == (pc = "stream" /\ InaT > 0) => now <= act + InaT
Bound == now <= Horizon
=============================================================================
