----------------------------- MODULE Filters -----------------------------
(***************************************************************************)
(* C15: exactly the handlers whose declared criteria hold are invoked.     *)
(* An executable reading of docs/filters.rst.                              *)
(*                                                                         *)
(* A declaration: [kind, lab, lab2, val, old, new, when]                   *)
(*   kind in create|update|delete|resume|field|event|daemon|timer|index    *)
(*   lab  label criterion on label "a":  none | eq (="x") | present |      *)
(*        absent | cb (callback: value = "x")                              *)
(*   val  field/value criterion on spec.f: none | field (field= only) |    *)
(*        eq1 | eq3 (= False) | present | absent | cb_eq1 | cb_none        *)
(*   old, new  transition criteria (update/field only): none | eq1 | eq2 | *)
(*        present | absent                                                 *)
(*   when  none | T | F                                                    *)
(* A state: [reason, la (label a: "-" absent, "x", "y"), fo, fn (old/new   *)
(*   value of spec.f: 0 = absent, 1, 2)]; reason "-" for non-changing kinds *)
(***************************************************************************)
EXTENDS Naturals, Sequences, FiniteSets, TLC

Changing == {"create", "update", "delete", "resume", "field"}
UpdateLike == {"update", "field"}

\* a second label criterion (label "b"), listed after the first one in the same labels= mapping
Lab2Crit(c, lb) == CASE c = "none" -> TRUE [] c = "eq" -> lb = "y" [] c = "absent" -> lb = "-"

LabCrit(c, la) ==
  CASE c = "none" -> TRUE
    [] c = "eq" -> la = "x"
    [] c = "present" -> la # "-"
    [] c = "absent" -> la = "-"
    [] c = "cb" -> la = "x"            \* the callback gets None for an absent label

\* one value criterion on one (possibly absent) value; sentinel = TRUE models callbacks that are handed an
\* internal sentinel instead of None for an absent field (family F10)
ValCrit(c, v, sentinel) ==
  CASE c \in {"none", "field", "present"} -> v # 0
    [] c = "absent" -> v = 0
    [] c = "eq1" -> v = 1
    [] c = "eq2" -> v = 2
    [] c = "eq3" -> v = 3              \* the literal False: a criterion that is itself falsy is a criterion nevertheless
    [] c = "cb_eq1" -> v = 1
    [] c = "cb_none" -> IF sentinel THEN FALSE ELSE v = 0

HasField(d) == d.val # "none" \/ d.old # "none" \/ d.new # "none"

\* oldToo = TRUE models value criteria judged on [new, old] for every changing kind (family F11)
MatchesG(d, s, sentinel, oldToo) ==
  /\ (d.kind \in Changing /\ d.kind # "field" => d.kind = s.reason)
  /\ LabCrit(d.lab, s.la) /\ Lab2Crit(d.lab2, s.lb)
  /\ (HasField(d) =>
        LET upd == d.kind \in UpdateLike
            vals == IF (upd \/ oldToo) /\ d.kind \in Changing THEN {s.fn, s.fo} ELSE {s.fn}
        IN /\ (d.old = "none" /\ d.new = "none" => \E v \in vals : ValCrit(d.val, v, sentinel))
           /\ (upd => /\ s.fo # s.fn                                     \* the field must actually change
                      /\ (d.old # "none" => ValCrit(d.old, s.fo, sentinel))
                      /\ (d.new # "none" => ValCrit(d.new, s.fn, sentinel))))
  /\ d.when # "F"

Matches(d, s) == MatchesG(d, s, FALSE, FALSE)          \* the reference: current value; for updates old or new

\* ---- the resource selector (docs/resources.rst): sel = [group, version ("any" = not given), nt, name], res = a served resource
IsEvents(res) == res.plural = "events" /\ res.group \in {"", "events.k8s.io"}
InSeq(x, s) == \E i \in DOMAIN s : s[i] = x
SelMatches(sel, res) ==
  /\ (sel.group = "any" \/ sel.group = res.group)
  \* a version that is named is taken as named; otherwise only the preferred version of the group -- unless a callable decides
  /\ (IF sel.version = "any" THEN res.preferred \/ sel.nt = "fn" ELSE sel.version = res.version)
  /\ CASE sel.nt = "plural" -> sel.name = res.plural
        [] sel.nt = "kind" -> sel.name = res.kind
        [] sel.nt = "singular" -> sel.name = res.singular
        [] sel.nt = "shortcut" -> InSeq(sel.name, res.shortcuts)
        [] sel.nt = "category" -> InSeq(sel.name, res.categories)
        [] sel.nt = "any" -> sel.name \in {res.kind, res.plural, res.singular} \/ InSeq(sel.name, res.shortcuts)      \* not categories
        [] sel.nt = "everything" -> ~IsEvents(res)          \* the events of Kubernetes are never part of "everything"
        [] sel.nt = "fn" -> ~IsEvents(res) /\ (sel.name = "true" \/ res.plural = "things")

ClassifyC15(rec) ==
  IF rec.kind = "selector" THEN (IF rec.checked # SelMatches(rec.sel, rec.res) THEN "selector_check_differs_from_the_documented_rules"
                                 ELSE IF rec.invoked # rec.checked THEN "registry_disagrees_with_the_selector" ELSE "ok") ELSE
  IF rec.kind = "dedup" THEN (IF rec.invocations = rec.expected THEN "ok" ELSE "not_deduplicated")
  ELSE LET d == rec.decl s == rec.state IN
    IF rec.invoked = Matches(d, s) THEN "ok"
    ELSE IF rec.invoked = MatchesG(d, s, TRUE, FALSE) THEN "F10"
    ELSE IF rec.invoked = MatchesG(d, s, FALSE, TRUE) THEN "F11"
    ELSE IF rec.invoked = MatchesG(d, s, TRUE, TRUE) THEN "F11"
    ELSE "wrong_selection"
=============================================================================
