---------------------------- MODULE MC_Essence ----------------------------
(* The laws of C04 on the REFERENCE diff, exhaustively over pairs of small bodies (one operand per initial state,
   the other chosen in the next step, so that all workers share the product).  Bodies are enumerated through integer
   codes because TLC cannot build a set of differently-typed tagged values. *)
EXTENDS Essence
CONSTANTS KS, LeafN
LeafSeq == <<Null, I(1), S("x"), EmptyD, L(<<I(1)>>), B(TRUE)>>
NL == LeafN          \* how many of the leaves are used (quick: 3, thorough: all 6)
Zero == [k \in KS |-> 0]
T1Codes == {<<i, Zero>> : i \in 1..NL} \cup {<<0, f>> : f \in [KS -> 0..NL]}       \* a leaf, or a mapping of leaves
AbsentCode == <<NL + 1, Zero>>
T2Codes == [KS -> T1Codes \cup {AbsentCode}]
DecT1(c) == IF c[1] > 0 /\ c[1] <= NL THEN LeafSeq[c[1]] ELSE D([k \in {k2 \in KS : c[2][k2] > 0} |-> LeafSeq[c[2][k]]])
Dec(g) == D([k \in {k2 \in KS : g[k2][1] <= NL} |-> DecT1(g[k])])
VARIABLES a, b, ph
Init == a \in T2Codes /\ b = a /\ ph = 0
Next == ph = 0 /\ ph' = 1 /\ b' \in T2Codes /\ UNCHANGED a
Spec == Init /\ [][Next]_<<a, b, ph>>
DiffSound    == ph = 0 \/ JEq(ApplyDiff(Dec(a), Diff(Dec(a), Dec(b), <<>>)), Dec(b))
DiffComplete == ph = 0 \/ ((Diff(Dec(a), Dec(b), <<>>) = {}) <=> JEq(Dec(a), Dec(b)))
ReduceExact  == ph = 0 \/ \A k \in KS : SameItems(ReduceRef(Dec(a), Dec(b), <<k>>), Diff(Get(Dec(a), <<k>>), Get(Dec(b), <<k>>), <<>>))
=============================================================================
