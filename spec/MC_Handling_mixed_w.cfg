SPECIFICATION SafeSpec
CONSTANTS
  H = {"a", "d"}
  ConfSet <- Confs_mixed
  Delays = {1}
  EssVals = {1, 2}
  Foreign = {}
  Horizon = 6
  Doors <- NoDoors
  MaxEdits = 0
  MaxFails = 0
  MaxKills = 0
  MaxStops = 0
  MaxDeletes = 1
  MaxForeign = 0
  MaxToggles = 0
  MaxRelists = 0
  MaxHolds = 0
INVARIANT NoHeldByDaemon
CHECK_DEADLOCK FALSE
