SPECIFICATION KSpec
CONSTANTS
  Names = {"a", "b"}
  Tasks = {"t1", "t2"}
  Fn = "all"
  MaxOps = 5
PROPERTY ReleasedEventually
CHECK_DEADLOCK FALSE
