----------------------------- MODULE Sim_Peering -----------------------------
(* MC_Peering paced for `tlc -simulate`: at least one tick passes between two actions of the environment, so that the
   behaviours TLC draws spread the starts, exits and kills over time. The schedules are replayed into the real operators. *)
EXTENDS MC_Peering
VARIABLE gap
SimInit == MCInit /\ gap = 1
Cnt == <<nstart, nstop, nkill, next_>>
SimNext == \/ (EnvNext /\ gap >= 1 /\ gap' = 0)
           \/ (Tick /\ UNCHANGED Cnt /\ gap' = IF gap < 5 THEN gap + 1 ELSE gap)
           \/ (OpNext /\ UNCHANGED Cnt /\ UNCHANGED gap)
SimSpec == SimInit /\ [][SimNext]_<<mcvars, gap>>
=============================================================================
