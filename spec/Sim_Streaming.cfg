SPECIFICATION SimSpec
CONSTANTS
  ConfSet <- ConfsA
  Horizon = 30
  On410 = "relist"
  MaxRV = 8
  MaxFaults = 6
  MaxPauses = 0
  FaultKinds = {"429", "429ra", "503", "conn", "404"}
  EndKinds = {"eof", "conn"}
INVARIANT SinceNeverAhead
CHECK_DEADLOCK FALSE
