SPECIFICATION Spec
CONSTANT KS = {"p", "q"}
CONSTANT LeafN = 6
INVARIANT DiffSound
INVARIANT DiffComplete
INVARIANT ReduceExact
CHECK_DEADLOCK FALSE
