SPECIFICATION Spec
CONSTANTS
  Hs = {"d1", "d2", "t1"}
  ConfSet <- ConfsPause
  Horizon = 6
  MaxEdits = 0
  MaxToggles = 0
  MaxDeletes = 0
  MaxForce = 0
  MaxStops = 0
  MaxKills = 0
  MaxPauses = 1
INVARIANT OneInstance
INVARIANT NoRespawnAfterOwnExit
INVARIANT CancelNotBeforeBackoff
INVARIANT StagesInOrder
INVARIANT FinalizerHeld
INVARIANT PausedAllFlagged
CHECK_DEADLOCK FALSE
