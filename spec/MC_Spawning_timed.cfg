SPECIFICATION Spec
CONSTANTS
  Hs = {"d1", "d2", "t1"}
  ConfSet <- ConfsTimed
  Horizon = 16
  MaxEdits = 0
  MaxToggles = 1
  MaxDeletes = 1
  MaxForce = 0
  MaxStops = 0
  MaxKills = 0
  MaxPauses = 0
INVARIANT DeletionInTime
CHECK_DEADLOCK FALSE
