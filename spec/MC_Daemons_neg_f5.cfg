SPECIFICATION Spec
CONSTANTS
  Reaction = "obey"
  Backoff = 2
  Timeout = 2
  ObeyDelay = 1
  MaxEnv = 3
INVARIANT AskedOnDisappear
CHECK_DEADLOCK FALSE
