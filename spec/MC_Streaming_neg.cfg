SPECIFICATION MSpec
CONSTANTS
  ConfSet <- ConfsA
  Horizon = 6
  On410 = "jump"
  MaxRV = 2
  MaxFaults = 2
  MaxPauses = 2
  FaultKinds = {"429", "429ra", "503", "conn", "404"}
  EndKinds = {"eof", "conn"}
INVARIANT TypeOK
INVARIANT SinceNeverAhead
INVARIANT NoSkip
INVARIANT AllReach
INVARIANT ClosedWhilePaused
INVARIANT FreshListing
INVARIANT InactivityKept
CHECK_DEADLOCK FALSE
