SPECIFICATION MCSpec
CONSTANT NoConf = NoConf
CONSTANT MaxKids = 2
CONSTRAINT BoundedQ
INVARIANT NoOrphan
CHECK_DEADLOCK FALSE
