SPECIFICATION Spec
CONSTANTS
  MaxChanges = 4
  MaxFaults = 3
  RememberAfterYield = FALSE
  EagerBookmark = FALSE
INVARIANT NoSkip
INVARIANT SinceNeverAhead
INVARIANT AllReach
CHECK_DEADLOCK FALSE
