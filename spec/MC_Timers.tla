----------------------------- MODULE MC_Timers -----------------------------
EXTENDS Timers
C(i, s, d, n) == [interval |-> i, sharp |-> s, idle |-> d, initdelay |-> n, backoff |-> 2]
AllConfs == {C(3, FALSE, 0, 0), C(3, TRUE, 0, 1), C(3, FALSE, 2, 0), C(2, TRUE, 3, 2), C(0, FALSE, 2, 0), C(0, FALSE, 0, 0), C(2, FALSE, 0, 2)}
=============================================================================
