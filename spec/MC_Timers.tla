----------------------------- MODULE MC_Timers -----------------------------
EXTENDS Timers
CB(i, s, d, n, b) == [interval |-> i, sharp |-> s, idle |-> d, initdelay |-> n, backoff |-> b]
C(i, s, d, n) == CB(i, s, d, n, 2)
AllConfs == {C(3, FALSE, 0, 0), C(3, TRUE, 0, 1), C(3, FALSE, 2, 0), C(2, TRUE, 3, 2), C(0, FALSE, 2, 0), C(0, FALSE, 0, 0), C(2, FALSE, 0, 2), CB(3, FALSE, 0, 0, 0), CB(0, FALSE, 2, 0, 0)}
\* the object stops matching the timer's filters and matches again (at most MaxToggles toggles)
CONSTANT MaxToggles
VARIABLE ntog
MInit == Init /\ ntog = 0
MNext == (Next /\ UNCHANGED ntog) \/ (ntog < MaxToggles /\ ntog' = ntog + 1 /\ (IF matching THEN Unmatch ELSE Rematch))
MSpec == MInit /\ [][MNext]_<<vars, ntog>>
=============================================================================
