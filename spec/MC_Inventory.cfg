SPECIFICATION ISpec
CONSTANTS
  Uids = {u1, u2, u3}
  MaxMem = 5
INVARIANT OnePerObject
CHECK_DEADLOCK FALSE
