-------------------------- MODULE Trace_Lifecycle --------------------------
(***************************************************************************)
(* Trace validation for Lifecycle.tla: one run of the real kopf.operator() *)
(* against the fake API, in virtual time.  Events (each with its instant): *)
(*   sh(out) / ch(out)   a startup / cleanup handler returned or raised    *)
(*   ready               the ready flag was raised                         *)
(*   api                 an API request reached the server                 *)
(*   wopen / wclose      the watch stream of the handled resource          *)
(*   announce / withdraw the operator's peering record                     *)
(*   dstart / dexit      a daemon instance                                 *)
(*   stop / cancel       the stop flag / cancellation of the run call      *)
(*   fault(task, kind)   the harness broke the stream of an observer       *)
(*   return(outcome)     kopf.operator() returned / raised / was cancelled *)
(*   alive               end of the observation: it has not returned       *)
(* The steps of the mechanism that leave no event (gates, run_tasks()      *)
(* noticing, unwinding, the task that failed) are taken silently.          *)
(***************************************************************************)
EXTENDS Lifecycle, Integers, Json, IOUtils, TLCExt
Traces == JsonDeserialize(IOEnv.TRACE_FILE)
VARIABLES tid, l, faulted, fkind, tTrig, bad
tvars == <<vars, tid, l, faulted, fkind, tTrig, bad>>
T == Traces[tid].events
E == T[l]
TInit == /\ tid \in 1..Len(Traces) /\ l = 1 /\ faulted = {} /\ fkind = "none" /\ tTrig = -1 /\ bad = "none"
         /\ Init0(Traces[tid].conf)
Ev(e) == l <= Len(T) /\ E.ev = e /\ l' = l + 1 /\ UNCHANGED tid
Keep == UNCHANGED <<faulted, fkind, tTrig>>
Trig == tTrig' = IF tTrig < 0 THEN E.t ELSE tTrig

TSh   == Ev("sh") /\ StartupStep(E.h, E.out) /\ Keep
TCh   == Ev("ch") /\ CleanupStep(E.h, E.out) /\ Keep
THStart == Ev("hstart") /\ HandlerStartsIn(TRUE) /\ Keep
THEnd == Ev("hend") /\ HandlerEnds /\ Keep
TReady == Ev("ready") /\ ready /\ UNCHANGED vars /\ Keep
TApi  == Ev("api") /\ (\E t \in Roots : Api(t)) /\ Keep
TWOpen == Ev("wopen") /\ WatchOpens /\ Keep
TWClose == Ev("wclose") /\ WatchCloses /\ Keep
TAnnounce == Ev("announce") /\ Announce /\ Keep
TWithdraw == Ev("withdraw") /\ Withdraws /\ Keep
TDStart == Ev("dstart") /\ (DaemonStarts \/ DaemonStartsLate) /\ Keep
TDExit == Ev("dexit") /\ (DaemonExits \/ LateDaemonExits \/ OrphanExits) /\ Keep
TOrphan == Ev("orphan") /\ Orphaned /\ Keep
TStop == Ev("stop") /\ StopFlag /\ Trig /\ UNCHANGED <<faulted, fkind>>
TCancel == Ev("cancel") /\ Cancel /\ Trig /\ UNCHANGED <<faulted, fkind>>
TFault == Ev("fault") /\ UNCHANGED vars /\ Trig /\ fkind' = E.kind
          /\ faulted' = (IF E.task \in Roots THEN faulted \cup {E.task} ELSE faulted)
TReturn == Ev("return") /\ RunnerReturns /\ runner' = E.outcome /\ Keep
TAlive == Ev("alive") /\ UNCHANGED vars /\ Keep

Silent == /\ l <= Len(T) /\ UNCHANGED <<tid, l>> /\ Keep
          /\ \/ StartupEnds \/ CleanupEnds \/ GatesOpen \/ RunnerStops \/ ScWaitsRoots \/ ScBeginsCleanup \/ ScCancelledInStartup
             \/ \E t \in Roots : Unwinds(t)
             \/ (WatchCloses /\ rt["orch"] = "cancelling")   \* cancelled between the listing and the watch request: no stream end is seen
             \/ \E t \in faulted : Fails(t)

StepBad ==
  IF l' = l THEN "none"
  ELSE CASE E.ev = "return" /\ tTrig >= 0 /\ E.t - tTrig > Traces[tid].bound -> "exit_took_longer_than_the_grace_periods"
         [] E.ev = "alive" /\ fkind = "thingwatch" -> "F15"
         [] E.ev = "alive" /\ fkind = "relogin" -> "F14"
         [] E.ev = "alive" /\ tTrig >= 0 /\ E.t - tTrig > Traces[tid].bound -> "lingers_half_alive_after_a_failure_or_a_stop"
         [] OTHER -> "none"
FamilyBad == IF Family_F29' /\ ~Family_F29 THEN "F29" ELSE IF Family_F5' /\ ~Family_F5 THEN "F5" ELSE "none"
AllInv == NoApiBeforeStartup /\ ReadyAfterStartup /\ FailedStartupNoApi /\ CleanupLast /\ NothingLingers /\ ReRaises
FirstBad == IF ~NoApiBeforeStartup THEN "NoApiBeforeStartup" ELSE IF ~ReadyAfterStartup THEN "ReadyAfterStartup"
            ELSE IF ~FailedStartupNoApi THEN "FailedStartupNoApi" ELSE IF ~CleanupLast THEN "CleanupLast"
            ELSE IF ~NothingLingers THEN "NothingLingers" ELSE IF ~ReRaises THEN "ReRaises" ELSE "none"
TNext == /\ (TSh \/ TCh \/ TReady \/ TApi \/ TWOpen \/ TWClose \/ TAnnounce \/ TWithdraw \/ TDStart \/ TDExit \/ TStop \/ TCancel
             \/ TFault \/ TReturn \/ THStart \/ THEnd \/ TAlive \/ TOrphan \/ Silent)
         /\ bad' = (IF bad # "none" THEN bad ELSE IF StepBad # "none" THEN StepBad ELSE IF FirstBad' # "none" THEN FirstBad' ELSE FamilyBad)
TSpec == TInit /\ [][TNext]_tvars

Max2(a, b) == IF a >= b THEN a ELSE b
Book == /\ TLCSet(3, [TLCGet(3) EXCEPT ![tid] = Max2(@, l)])
        /\ IF bad = "none" THEN TLCSet(1, [TLCGet(1) EXCEPT ![tid] = Max2(@, l)])
           ELSE IF l >= TLCGet(3)[tid] THEN TLCSet(2, [TLCGet(2) EXCEPT ![tid] = bad]) ELSE TRUE
ASSUME TLCSet(1, [i \in 1..Len(Traces) |-> 0]) /\ TLCSet(3, [i \in 1..Len(Traces) |-> 0]) /\ TLCSet(2, [i \in 1..Len(Traces) |-> "none"])
Verdicts == \A i \in 1..Len(Traces) :
     PrintT(<<"VERDICT", i, Traces[i].id, TLCGet(1)[i] - 1, TLCGet(3)[i] - 1, Len(Traces[i].events), TLCGet(2)[i]>>)
=============================================================================
