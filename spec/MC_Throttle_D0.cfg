SPECIFICATION Spec
CONSTANTS
  Delays <- D0
  Horizon = 16000
  MaxCalls = 6
INVARIANT NoRunWhilePaused
PROPERTY Growing
PROPERTY SkipChangesNothing
PROPERTY ResetBySuccess
CHECK_DEADLOCK FALSE
