------------------------------- MODULE Keys -------------------------------
(***************************************************************************)
(* C16: annotation names generated for handler ids, and the round trip of  *)
(* progress / last-handled records through the storages.                    *)
(* Text travels as sequences of code points (TLC cannot look into strings). *)
(***************************************************************************)
EXTENDS JV

IsUpper(c) == c >= 65 /\ c <= 90
IsLower(c) == c >= 97 /\ c <= 122
IsDigit(c) == c >= 48 /\ c <= 57
IsAlnum(c) == IsUpper(c) \/ IsLower(c) \/ IsDigit(c)
Dash == 45  Dot == 46  Under == 95  Slash == 47  Lt == 60  Gt == 62
NameChar(c) == IsAlnum(c) \/ c \in {Dash, Dot, Under}

\* Kubernetes: the name part of an annotation key
ValidName(s) == /\ Len(s) >= 1 /\ Len(s) <= 63
                /\ IsAlnum(s[1]) /\ IsAlnum(s[Len(s)])
                /\ \A i \in 1..Len(s) : NameChar(s[i])
\* ... and the optional prefix: a DNS subdomain
ValidPrefix(s) == /\ Len(s) >= 1 /\ Len(s) <= 253
                  /\ \A i \in 1..Len(s) : IsLower(s[i]) \/ IsDigit(s[i]) \/ s[i] \in {Dash, Dot}
                  /\ s[1] # Dash /\ s[1] # Dot /\ s[Len(s)] # Dash /\ s[Len(s)] # Dot
                  /\ \A i \in 1..(Len(s) - 1) : ~(s[i] = Dot /\ s[i + 1] \in {Dot, Dash}) /\ ~(s[i] = Dash /\ s[i + 1] = Dot)

FirstSlash(s) == IF \E i \in 1..Len(s) : s[i] = Slash THEN CHOOSE i \in 1..Len(s) : s[i] = Slash /\ \A j \in 1..(i - 1) : s[j] # Slash ELSE 0
ValidKey(s) == LET p == FirstSlash(s) IN
               IF p = 0 THEN ValidName(s)
               ELSE ValidPrefix(SubSeq(s, 1, p - 1)) /\ ValidName(SubSeq(s, p + 1, Len(s)))
                    /\ \A i \in (p + 1)..Len(s) : s[i] # Slash

\* make_safe_key: '/' -> '.', '<' and '>' -> '_'
SafeChar(c) == IF c = Slash THEN Dot ELSE IF c \in {Lt, Gt} THEN Under ELSE c
Safe(s) == [i \in 1..Len(s) |-> SafeChar(s[i])]
IsPrefixSeq(p, s) == Len(p) <= Len(s) /\ \A i \in 1..Len(p) : p[i] = s[i]

\* the reference shape of a V2 key: prefix "/" name, where name is the safe id if it fits into 63 characters, else a
\* cut of the safe id followed by a hash suffix "-xxxxxxxx" (opaque; up to 9 characters, never ending in - or .)
SuffixOk(sfx) == /\ Len(sfx) >= 2 /\ Len(sfx) <= 9 /\ sfx[1] = Dash
                 /\ \A i \in 2..Len(sfx) : IsAlnum(sfx[i]) \/ sfx[i] \in {Dash, Dot}
                 /\ sfx[Len(sfx)] \notin {Dash, Dot}
V2Shape(prefix, id, key) ==
  LET plen == Len(prefix) + 1
      name == SubSeq(key, plen + 1, Len(key))
      safe == Safe(id)
  IN /\ IsPrefixSeq(Append(prefix, Slash), key)
     /\ IF Len(id) <= 63 THEN name = safe
        ELSE /\ Len(name) <= 63
             /\ \E n \in 2..9 : n <= Len(name) /\ SuffixOk(SubSeq(name, Len(name) - n + 1, Len(name)))
                                /\ SubSeq(name, 1, Len(name) - n) = SubSeq(safe, 1, 63 - n)

\* F7: an id whose first (or, when it is short enough not to be hashed, last) character is not alphanumeric
Family_F7(id) == LET s == Safe(id) IN ~IsAlnum(s[1]) \/ (Len(id) <= 63 /\ ~IsAlnum(s[Len(s)]))

\* storage records: None-valued fields are not stored by Kubernetes
RECURSIVE DropNulls(_)
DropNulls(x) == IF ~IsD(x) THEN x ELSE D([k \in {k2 \in Keys(x) : ~IsNull(x.v[k2])} |-> x.v[k]])

ClassifyC16(rec) ==
  CASE rec.kind = "key" ->
         IF ~V2Shape(rec.prefix, rec.id, rec.key) THEN "key_shape"
         ELSE IF ValidKey(rec.key) THEN "ok"
         ELSE IF Family_F7(rec.id) THEN "F7" ELSE "invalid_annotation_name"
    [] rec.kind = "key1" ->      \* the legacy V1 key: the whole key fits 63 characters
         IF Len(rec.key) > 63 \/ ~IsPrefixSeq(Append(rec.prefix, Slash), rec.key) THEN "key1_shape"
         ELSE IF ValidKey(rec.key) THEN "ok"
         ELSE IF Family_F7(rec.id) THEN "F7" ELSE "invalid_annotation_name"
    [] rec.kind = "stable" -> IF rec.key = rec.key2 THEN "ok" ELSE "key_not_stable_across_processes"
    [] rec.kind = "distinct" -> IF rec.key # rec.key2 THEN "ok" ELSE "keys_collide"
    [] rec.kind = "roundtrip" ->
         IF ~JEq(rec.fetched, DropNulls(rec.record)) THEN "roundtrip_differs"
         ELSE IF ~JEq(rec.others_before, rec.others_after) THEN "store_disturbs_others"
         ELSE "ok"
    [] rec.kind = "purge" ->
         IF ~IsNull(rec.fetched_after) THEN "purge_incomplete"
         ELSE IF ~JEq(rec.others_before, rec.others_after) THEN "purge_disturbs_others"
         ELSE IF rec.leftover # 0 THEN "purge_leaves_keys"
         ELSE "ok"
    \* several operations on ONE patch for one id (purge / store of different records): after the merge the last one counts
    [] rec.kind = "sequence" ->
         IF ~JEq(rec.fetched, IF IsNull(rec.expected) THEN rec.expected ELSE DropNulls(rec.expected)) THEN "later_operation_on_the_same_patch_lost" ELSE "ok"
    \* the last-handled state (diff-base storages): stored -> merged by the server -> fetched gives the essence back, whatever it is
    [] rec.kind = "lasthandled" ->
         IF rec.names # rec.names_fresh THEN "annotation_names_depend_on_what_the_storage_served_before"      \* (identical across restarts)
         ELSE IF ~JEq(rec.fetched, rec.essence) THEN "last_handled_state_not_read_back"
         ELSE IF ~JEq(rec.others_before, rec.others_after) THEN "store_disturbs_others"
         ELSE "ok"
    [] OTHER -> "unknown_record_kind"
=============================================================================
