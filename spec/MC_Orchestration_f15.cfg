SPECIFICATION Spec
CONSTANTS
  Res = {"r1", "r2"}
  Nss = {"n1", "n2"}
  ClusterScoped = {}
  MaxRevisions = 4
  MaxDeaths = 1
  HoldLock = TRUE
INVARIANT Coverage
INVARIANT NoFamily
CHECK_DEADLOCK FALSE
