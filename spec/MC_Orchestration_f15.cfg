SPECIFICATION Spec
CONSTANTS
  Pairs = {"r1n1", "r1n2", "r2n1"}
  MaxRevisions = 4
  MaxDeaths = 1
  HoldLock = TRUE
INVARIANT Coverage
INVARIANT NoFamily
CHECK_DEADLOCK FALSE
