----------------------------- MODULE Rec_Kits -----------------------------
EXTENDS Kits, Json, IOUtils, TLCExt
CONSTANT NC
Recs == JsonDeserialize(IOEnv.REC_FILE)
VARIABLES c, i
Init == c \in 1..NC /\ i = 0 /\ KInit
Next == i = 0 /\ i' \in {j \in 1..Len(Recs) : j % NC = c - 1} /\ UNCHANGED <<c, kvars>>
Spec == Init /\ [][Next]_<<c, i, kvars>>
Verdict == i = 0 \/ LET v == ClassifyKits(Recs[i]) IN v = "ok" \/ PrintT(<<"REC", i, v>>)
=============================================================================
