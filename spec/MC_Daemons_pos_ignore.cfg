SPECIFICATION Spec
CONSTANTS
  Reaction = "ignore"
  Backoff = 2
  Timeout = 2
  ObeyDelay = 1
  MaxEnv = 3
INVARIANT SpawnOnlyWhenFree
INVARIANT NoRespawnAfterOwnExit
INVARIANT CancelNotBeforeBackoff
CHECK_DEADLOCK FALSE
