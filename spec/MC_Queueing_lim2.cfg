SPECIFICATION SafeSpec
CONSTANTS
  Objs = {o1, o2, o3}
  MaxEv = 2
  Limit = 2
  Recheck = TRUE
INVARIANT Serial
INVARIANT InOrder
INVARIANT EntryIffWorker
INVARIANT BacklogHasWorker
INVARIANT LimitRespected
INVARIANT LimitOnly
INVARIANT StrictNoLoss
CHECK_DEADLOCK FALSE
