---------------------------- MODULE Trace_Vault ----------------------------
(* Trace validation for Vault.tla: what the real credentials.Vault, auth.authenticated, api.request and
   activities.authenticator do, observed from outside -- the vault's own asyncio.Condition / Lock replaced by recording
   subclasses (immediate acquisitions, queueing, grants, releases, waits, wake-ups, notifications), Vault.select /
   _flush_caches / populate wrapped, the APIContext factory wrapped, every request that leaves (or fails to leave) the
   client and every answer recorded by the fake session -- must be a behaviour of the specification: every event is one
   action of Vault.tla taken by the task that the event names, the steps that cannot be seen (the checks between two
   blocks) are taken silently by the task that is running, and after every event the vault's current items and its
   readiness flag equal what was recorded.  The invariants of Vault.tla are evaluated in every state of every trace. *)
EXTENDS Vault, Json, IOUtils, TLCExt
Traces == JsonDeserialize(IOEnv.TRACE_FILE)
P1 == <<1>>
P11 == <<1, 1>>
P21 == <<2, 1>>
P12 == <<1, 2>>
AllOutcomes == {"fresh", "same", "none"}
VARIABLES tid, l
tvars == <<vars, tid, l>>
T == Traces[tid].events
E == T[l]
TInit == Init /\ tid \in 1..Len(Traces) /\ l = 1
Ev(e) == l <= Len(T) /\ E.ev = e /\ l' = l + 1 /\ UNCHANGED tid
Me == E.task
\* the vault as recorded right after the event
Seen == /\ \A k \in Keys : cur'[k] = E.vcur[k]
        /\ ready' = E.vready

LockSteps(t) == IF t = AUTH THEN a_acq \/ a_popacq \/ Reacquire(AUTH)
                ELSE A_acq(t) \/ B_chk(t) \/ C_chk(t) \/ D_acq(t) \/ E_acq(t) \/ Reacquire(t)
TLockNow   == Ev("lock.now") /\ holder = NoTask /\ lockQ = <<>> /\ LockSteps(Me) /\ holder' = Me /\ Seen
TLockQueue == Ev("lock.queue") /\ LockSteps(Me) /\ pc'[Me] = "lockwait" /\ Seen
TLockGot   == Ev("lock.got") /\ Grant(Me) /\ Seen
TLockRel   == /\ Ev("lock.rel") /\ holder = Me
              /\ IF Me = AUTH THEN (a_chk /\ ~ready) \/ a_rel
                 ELSE A_raise(Me) \/ A_rel(Me) \/ B_rel(Me) \/ BC_stale(Me) \/ C_crash(Me) \/ C_rel(Me) \/ D_after(Me) \/ E_chk(Me)
              /\ holder' = NoTask /\ Seen
TCondWait  == /\ Ev("cond.wait")
              /\ IF Me = AUTH THEN a_chk ELSE A_chk(Me) \/ D_wait(Me) \/ X_wait(Me)
              /\ Me \in condQ' /\ Seen
TCondWake  == Ev("cond.wake") /\ Wake(Me) /\ Seen
TStart     == Ev("start") /\ (IF Me = AUTH THEN AStart ELSE Start(Me)) /\ Seen
TSel       == Ev("sel") /\ A_sel(Me) /\ ~Empty /\ hkey'[Me] = E.key /\ held'[Me] = E.item /\ Seen
TSelFail   == Ev("sel.fail") /\ A_sel(Me) /\ Empty /\ Seen
TCtxNew    == Ev("ctx.new") /\ (C_set(Me) \/ BC_set(Me)) /\ nctx' = nctx + 1 /\ val[held[Me]] = E.val /\ Seen
TSend      == Ev("send") /\ Send(Me) /\ pc'[Me] = "inflight" /\ val[held[Me]] = E.val /\ Seen
TSendClosed == Ev("send.closed") /\ Send(Me) /\ pc'[Me] = "D_acq" /\ Seen
TRetry     == Ev("retry") /\ Retry(Me) /\ Seen
TResp      == /\ Ev("resp")
              /\ \/ E.code = 200 /\ RespOk(Me)
                 \/ E.code = 401 /\ Resp401(Me)
                 \/ E.code = 503 /\ RespFault(Me)
              /\ Seen
TFlushB    == /\ Ev("flush.b")
              /\ \/ D_flush(Me) /\ Victim(Me) = E.item
                 \/ X_flush(Me) /\ cur[hkey'[Me]] = E.item
              /\ Seen
TFlushE    == Ev("flush.e") /\ (D_flushed(Me) \/ X_flushed(Me)) /\ Seen
TNotify    == Ev("notify") /\ (IF Me = AUTH THEN a_pop ELSE (D_empty(Me) \/ X_end(Me)) /\ Empty) /\ Seen
TExpire    == Ev("expire") /\ Expire(E.val) /\ Seen
TLogin     == /\ Ev("login") /\ Me = AUTH
              /\ LET abs == [k \in Keys |-> IF E.res[k] > nval THEN FRESH ELSE E.res[k]] IN
                 Login(abs) /\ \A k \in Keys : lres'[k] = E.res[k]
              /\ Seen
TRevoke    == Ev("revoke") /\ Revoke(E.val) /\ Seen
\* the request has come to its end in the code: the specification must be there, too
TEnd       == /\ Ev("end") /\ UNCHANGED vars
              /\ \/ E.outcome = "ok" /\ pc[Me] = "idle" /\ rounds[Me] > 0
                 \/ E.outcome = "login" /\ pc[Me] = "failed"
                 \/ E.outcome = "raised" /\ pc[Me] = "raised"
\* what cannot be seen: the steps of the running task that neither touch the lock nor anything recorded
Silent(t) == IF t = AUTH THEN FALSE
             ELSE \/ A_chk(t) /\ ready
                  \/ B_chk(t) /\ pc'[t] \in {"C_chk", "send"}
                  \/ B_set(t)
                  \/ C_chk(t) /\ cache[held[t]] = "ctx"
                  \/ C_set(t) /\ cache[held[t]] # "empty"
                  \/ BC_set(t) /\ (cur[hkey[t]] # held[t] \/ cache[held[t]] = "ctx")
                  \/ D_chk(t) \/ D_del(t)
                  \/ D_empty(t) /\ ~Empty
                  \/ D_wait(t) /\ ready
                  \/ X_chk(t) \/ X_del(t)
                  \/ X_end(t) /\ ~Empty
                  \/ X_wait(t) /\ ready
TSilent    == run # NoTask /\ Silent(run) /\ UNCHANGED <<tid, l>>

TNext == TLockNow \/ TLockQueue \/ TLockGot \/ TLockRel \/ TCondWait \/ TCondWake \/ TStart \/ TSel \/ TSelFail \/ TCtxNew
         \/ TSend \/ TSendClosed \/ TRetry \/ TResp \/ TFlushB \/ TFlushE \/ TNotify \/ TLogin \/ TRevoke \/ TExpire \/ TEnd \/ TSilent
TSpec == TInit /\ [][TNext]_tvars

Max2(a, b) == IF a >= b THEN a ELSE b
Broken == IF ~NoReuse THEN "NoReuse" ELSE IF ~NoCrash THEN "NoCrash" ELSE IF ~SingleReauth THEN "SingleReauth"
          ELSE IF ~LockDiscipline THEN "LockDiscipline" ELSE ""
\* not clauses of the property, but worth a note when seen: a context made for an item that has left the vault (its session is never
\* closed), a request that leaves with credentials dropped as expired
Noted == IF ~NoLeak THEN "NoLeak" ELSE IF ~NoExpiredUse THEN "NoExpiredUse" ELSE ""
Book == /\ TLCSet(1, [TLCGet(1) EXCEPT ![tid] = Max2(@, l)])
        /\ (Broken = "" \/ TLCSet(2, [TLCGet(2) EXCEPT ![tid] = IF @ = "" THEN Broken ELSE @]))
        /\ (Noted = "" \/ TLCSet(3, [TLCGet(3) EXCEPT ![tid] = IF @ = "" THEN Noted ELSE @]))
ASSUME TLCSet(1, [i \in 1..Len(Traces) |-> 0])
ASSUME TLCSet(2, [i \in 1..Len(Traces) |-> ""])
ASSUME TLCSet(3, [i \in 1..Len(Traces) |-> ""])
Verdicts == \A i \in 1..Len(Traces) : PrintT(<<"VERDICT", i, Traces[i].id, TLCGet(1)[i] - 1, Len(Traces[i].events), TLCGet(2)[i], TLCGet(3)[i]>>)
=============================================================================
