---------------------------- MODULE Sim_Streaming ----------------------------
(* MC_Streaming for `tlc -simulate`: the environment's choices (changes, compaction, faults of requests, ends of the
   connection, bookmarks, odd lines) are written into a history; the behaviours TLC draws are replayed into the real
   operator as scenarios (vf/props/C19.py: tlc_scenarios), and the runs are validated like all the others. *)
EXTENDS MC_Streaming
VARIABLES hist, gap
\* the environment acts at most once between two ticks, and only once the watcher lives: the histories spread over time
Rec(a, x) == hist' = Append(hist, <<now, a, x>>) /\ pc # "init" /\ gap >= 1 /\ gap' = 0
Same == UNCHANGED <<hist, gap>>
SimInit == MInit /\ hist = <<>> /\ gap = 1
Un(v) == UNCHANGED v
SimNext ==
  \/ SChange /\ Rec("edit", "")
  \/ SCompact /\ Rec("compact", "")
  \/ \E f \in FaultKinds : nf < MaxFaults /\ nf' = nf + 1 /\ Fail(f) /\ UNCHANGED <<srv, compacted, sent, gone, got, base, np, nw>> /\ Rec("fail", f)
  \/ \E how \in EndKinds : Streaming1 /\ nf < MaxFaults /\ nf' = nf + 1 /\ End(conn, how) /\ UNCHANGED <<srv, compacted, sent, gone, got, base, np, nw>> /\ Rec(how, "")
  \/ SBookmark /\ Rec("bookmark", "")
  \/ SWeird /\ Rec("weird", "")
  \/ SError /\ Rec("fatal", "")
  \/ (SSpawn \/ SList \/ SOpen \/ SLine \/ S410 \/ SPut \/ ((InactiveCall \/ Notice) /\ UNCHANGED svars)) /\ Same
  \/ Tick /\ UNCHANGED svars /\ UNCHANGED hist /\ gap' = (IF gap < 3 THEN gap + 1 ELSE gap)
  \/ Streaming1 /\ End(conn, "clienttimeout") /\ UNCHANGED svars /\ Same
  \/ Streaming1 /\ End(conn, "client-closed") /\ UNCHANGED svars /\ Same
  \/ (\E w \in old \cup mustclose : End(w, "client-closed")) /\ UNCHANGED svars /\ Same
SimSpec == SimInit /\ [][SimNext]_<<mvars, hist, gap>>
=============================================================================
