SPECIFICATION NegSpec
CONSTANT NoConf = NoConf
CONSTANT MaxKids = 2
CONSTRAINT Bounded
INVARIANT NoApiBeforeStartup
CHECK_DEADLOCK FALSE
