-------------------------------- MODULE Gate --------------------------------
(***************************************************************************)
(* The index readiness gate (operator_indexed = ToggleSet(all)) together   *)
(* with the scheduler's worker limit, as queueing.watcher / worker and     *)
(* processing.process_resource_event arrange it at startup:                *)
(*   the watcher makes one toggle per newly seen object BEFORE it asks the *)
(*   scheduler for a worker, and drops the kind's toggle at LISTED;        *)
(*   a worker indexes its object, drops the object's toggle and then waits *)
(*   until no toggle is left before it runs any handler.                   *)
(* With a limit L below the number of listed objects, L workers wait at    *)
(* the gate holding all the slots while the toggles of the objects whose   *)
(* workers cannot start are never dropped: F16.                            *)
(***************************************************************************)
EXTENDS Naturals, FiniteSets, TLC
CONSTANTS Objs, Limit          \* Limit = 0: no limit
VARIABLES dispatched, started, togg, atgate, done, listed
vars == <<dispatched, started, togg, atgate, done, listed>>
Init == dispatched = {} /\ started = {} /\ togg = {"kind"} /\ atgate = {} /\ done = {} /\ listed = FALSE
GateOn == togg = {}
Busy == Cardinality(started \ done)
Dispatch(o) == /\ o \in Objs \ dispatched /\ ~listed
               /\ dispatched' = dispatched \cup {o}
               /\ togg' = IF GateOn THEN togg ELSE togg \cup {o}      \* once the readiness was achieved, it is never blocked again
               /\ UNCHANGED <<started, atgate, done, listed>>
Listed == /\ ~listed /\ dispatched = Objs /\ listed' = TRUE /\ togg' = togg \ {"kind"}
          /\ UNCHANGED <<dispatched, started, atgate, done>>
Start(o) == /\ o \in dispatched \ started /\ (Limit = 0 \/ Busy < Limit)
            /\ started' = started \cup {o} /\ UNCHANGED <<dispatched, togg, atgate, done, listed>>
Index(o) == /\ o \in started \ (atgate \cup done)
            /\ togg' = togg \ {o} /\ atgate' = atgate \cup {o} /\ UNCHANGED <<dispatched, started, done, listed>>
Pass(o) == /\ o \in atgate /\ GateOn
           /\ atgate' = atgate \ {o} /\ done' = done \cup {o} /\ UNCHANGED <<dispatched, started, togg, listed>>
Next == Listed \/ \E o \in Objs : Dispatch(o) \/ Start(o) \/ Index(o) \/ Pass(o)
Spec == Init /\ [][Next]_vars /\ WF_vars(Next)
\* C17: no handler before the initial index is complete
HandlersAfterIndex == \A o \in done : listed /\ \A p \in Objs : p \in atgate \cup done
\* and the startup terminates: everything listed gets handled
AllHandled == <>(done = Objs)
=============================================================================
