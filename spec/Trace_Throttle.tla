-------------------------- MODULE Trace_Throttle --------------------------
(* Trace validation of the real throttlers.throttled against Throttle.tla, one trace per object: every entry into the context manager
   (`enter`: the instant, whether the wake-up event is set already), what it yields (`yield`: run or not), how the body ends (`exit`:
   ok / err / skip) and the return from the context (`leave`), each with the throttler's observable fields (active_until,
   last_used_delay) -- must be the actions of the model at those instants: a pause ends exactly when it is due unless an event
   interrupts it, an interrupted pause means "do not run", the k-th error in a row is paused for the k-th delay, only a success resets. *)
EXTENDS Throttle, Json, IOUtils, TLCExt
D0 == <<>>
Traces == JsonDeserialize(IOEnv.TRACE_FILE)
VARIABLES tid, l
tvars == <<tvars0, tid, l>>
T == Traces[tid].events
E == T[l]
DelaysT == Traces[tid].delays
TInit == Init /\ tid \in 1..Len(Traces) /\ l = 1
Ev(e) == l <= Len(T) /\ E.ev = e /\ l' = l + 1 /\ UNCHANGED tid
Seen == until' = E.until /\ last' = E.last
\* time moves to the instant of the next event, but not past a pause that is due
Pass == /\ l <= Len(T) /\ E.t > now /\ (pc \in {"sleep1", "sleep2"} => E.t <= until)
        /\ now' = E.t /\ UNCHANGED <<pos, last, until, pc, run, consec, ncalls, tid, l>>
NextDelayT == LET p == IF pos = None THEN 0 ELSE pos IN IF p < Len(DelaysT) THEN DelaysT[p + 1] ELSE last
ErrT ==
  /\ pc = "body" /\ run /\ consec' = consec + 1
  /\ pos' = (LET p == IF pos = None THEN 0 ELSE pos IN IF p < Len(DelaysT) THEN p + 1 ELSE p)
  /\ IF NextDelayT = None THEN UNCHANGED <<last, until>> /\ pc' = "idle"
     ELSE last' = NextDelayT /\ until' = now + NextDelayT /\ pc' = "sleep2"
  /\ UNCHANGED <<now, run, ncalls>>
TEnter == Ev("enter") /\ E.t = now /\ Enter(E.preset)
TYield == /\ Ev("yield") /\ E.t = now
          /\ \/ pc = "body" /\ run = E.run /\ UNCHANGED tvars0                     \* decided at the entry already
             \/ Sleep1Over /\ E.run
             \/ Sleep1Woken /\ ~E.run
          /\ Seen
\* (the body has ended; what the throttler makes of it shows when the context is left)
TExit == /\ Ev("exit") /\ E.t = now
         /\ \/ E.outcome = "ok" /\ Ok
            \/ E.outcome = "err" /\ ErrT
            \/ E.outcome = "skip" /\ Skip
TLeave == /\ Ev("leave") /\ E.t = now
          /\ \/ pc = "idle" /\ UNCHANGED tvars0
             \/ Sleep2Over \/ Sleep2Woken
          /\ Seen
TNext == Pass \/ TEnter \/ TYield \/ TExit \/ TLeave
TSpec == TInit /\ [][TNext]_tvars
Max2(a, b) == IF a >= b THEN a ELSE b
Book == TLCSet(1, [TLCGet(1) EXCEPT ![tid] = Max2(@, l)])
ASSUME TLCSet(1, [i \in 1..Len(Traces) |-> 0])
Verdicts == \A i \in 1..Len(Traces) : PrintT(<<"VERDICT", i, Traces[i].id, TLCGet(1)[i] - 1, Len(Traces[i].events)>>)
=============================================================================
