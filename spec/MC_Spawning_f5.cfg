SPECIFICATION Spec
CONSTANTS
  Hs = {"d1", "d2", "t1"}
  ConfSet <- ConfsQ
  Horizon = 8
  MaxEdits = 0
  MaxToggles = 0
  MaxDeletes = 1
  MaxForce = 1
  MaxStops = 0
  MaxKills = 0
  MaxPauses = 0
INVARIANT NoF5
CHECK_DEADLOCK FALSE
