SPECIFICATION Spec
CONSTANTS
  Res = {"r1", "c1"}
  Nss = {"n1", "n2"}
  ClusterScoped = {"c1"}
  MaxRevisions = 4
  MaxDeaths = 0
  HoldLock = TRUE
INVARIANT NoF34
CHECK_DEADLOCK FALSE
