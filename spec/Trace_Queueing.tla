-------------------------- MODULE Trace_Queueing --------------------------
(***************************************************************************)
(* Trace validation for Queueing.tla: a batch of traces recorded from the  *)
(* real kopf.queueing (hooks q.*, sched.close) and from the fake API       *)
(* (wire) is accepted iff some behaviour of Queueing explains it.          *)
(*                                                                         *)
(* Unlogged steps (the scheduler starting a job, a worker going to wait,   *)
(* the deadline passing, the task ending) are inferred by TLC.  Virtual    *)
(* time is bound too: the clock may advance only when no urgent operator   *)
(* action is enabled -- "events never wait beyond the worker limit".       *)
(* Verdicts are total: for every trace the longest explained prefix, with  *)
(* and without the invariants, is printed by the POSTCONDITION.            *)
(***************************************************************************)
EXTENDS Queueing, Json, IOUtils, TLCExt

Traces == JsonDeserialize(IOEnv.TRACE_FILE)
VARIABLES tid, l, now, bad
tvars == <<vars, tid, l, now, bad>>

T == Traces[tid].events
AllInv == Serial /\ InOrder /\ EntryIffWorker /\ BacklogHasWorker /\ LimitRespected /\ LimitOnly
FirstBad == IF ~Serial THEN "Serial" ELSE IF ~InOrder THEN "InOrder" ELSE IF ~EntryIffWorker THEN "EntryIffWorker"
            ELSE IF ~BacklogHasWorker THEN "BacklogHasWorker" ELSE IF ~LimitRespected THEN "LimitRespected"
            ELSE IF ~LimitOnly THEN "LimitOnly" ELSE "none"

TInit == Init /\ tid \in 1..Len(Traces) /\ l = 1 /\ now = 0 /\ bad = "none"

Ev(e) == /\ l <= Len(T) /\ T[l].ev = e /\ T[l].t = now
         /\ l' = l + 1 /\ UNCHANGED <<tid, now>>
Keep == UNCHANGED <<tid, l, now>>

TWire == Ev("wire") /\ LET o == T[l].o IN Wire(o) /\ sentw'[o] = T[l].n
TNew  == Ev("q.new") /\ LET o == T[l].o IN
           ~has[o] /\ WatcherRecv(o) /\ Head(wire[o]) = T[l].n /\ Len(backlog'[o]) = T[l].qlen
TPut  == Ev("q.put") /\ LET o == T[l].o IN
           has[o] /\ WatcherRecv(o) /\ Head(wire[o]) = T[l].n /\ Len(backlog'[o]) = T[l].qlen
TGet  == Ev("q.get") /\ LET o == T[l].o IN
           /\ backlog[o] # <<>> /\ Head(backlog[o]) = T[l].n
           /\ (WorkerHead(o) \/ WorkerGet(o))
           /\ (T[l].n # EOS => Len(backlog'[o]) = T[l].qlen)
TTimeout == Ev("q.timeout") /\ LET o == T[l].o IN
           WorkerTimeoutHandle(o) /\ ((backlog[o] = <<>>) <=> T[l].empty)
TBegin == Ev("q.proc.begin") /\ LET o == T[l].o IN
           wpc[o] = "proc" /\ cur[o] = T[l].n /\ (pressure[o] <=> T[l].pressure) /\ UNCHANGED vars
TEnd  == Ev("q.proc.end") /\ LET o == T[l].o IN cur[o] = T[l].n /\ ProcEnd(o)
TExit == Ev("q.exit") /\ LET o == T[l].o IN
           IF watcher = "closed" /\ wpc[o] \in Active THEN WorkerCancelled(o)
           ELSE ~has[o] /\ exiting[o] > 0 /\ UNCHANGED vars     \* the Leave of q.get(EOS) / q.timeout(empty) just before
TDepl == Ev("q.depleting") /\ WatcherCancel
TClose == Ev("sched.close") /\ WatcherClose
TQuiet == Ev("quiet") /\ watcher = "run" /\ ~ENABLED Urgent /\ AllProcessed
          /\ (\A o \in Objs : wpc[o] = "none" => ~has[o] /\ backlog[o] = <<>>) /\ UNCHANGED vars

Silent == /\ \/ SchedStart
             \/ \E o \in Objs : (wpc[o] = "head" /\ backlog[o] = <<>> /\ WorkerHead(o))
                                 \/ WorkerTimeoutFire(o) \/ WorkerGone(o)
          /\ Keep
Advance == /\ l <= Len(T) /\ T[l].t > now /\ ~ENABLED Urgent
           /\ now' = now + 1 /\ UNCHANGED <<vars, tid, l>>

TStep == TWire \/ TNew \/ TPut \/ TGet \/ TTimeout \/ TBegin \/ TEnd \/ TExit \/ TDepl \/ TClose \/ TQuiet
         \/ Silent \/ Advance
TNext == TStep /\ bad' = (IF bad # "none" THEN bad ELSE FirstBad')
TSpec == TInit /\ [][TNext]_tvars

\* ---- bookkeeping: registers 1 (longest prefix explained with all invariants true),
\*      2 (name of the first violated invariant on the longest path), 3 (longest prefix explained at all)
Max(a, b) == IF a >= b THEN a ELSE b
Book ==
  /\ TLCSet(3, [TLCGet(3) EXCEPT ![tid] = Max(@, l)])
  /\ IF bad = "none" THEN TLCSet(1, [TLCGet(1) EXCEPT ![tid] = Max(@, l)])
     ELSE IF l >= TLCGet(3)[tid] THEN TLCSet(2, [TLCGet(2) EXCEPT ![tid] = bad]) ELSE TRUE
ASSUME TLCSet(1, [i \in 1..Len(Traces) |-> 0]) /\ TLCSet(3, [i \in 1..Len(Traces) |-> 0])
       /\ TLCSet(2, [i \in 1..Len(Traces) |-> "none"])
Verdicts ==
  \A i \in 1..Len(Traces) :
     PrintT(<<"VERDICT", i, Traces[i].id, TLCGet(1)[i] - 1, TLCGet(3)[i] - 1, Len(Traces[i].events), TLCGet(2)[i]>>)
=============================================================================
