---------------------------- MODULE FreshMonitor ----------------------------
(***************************************************************************)
(* C07 stated over recorded executions of the real operator (any set of    *)
(* handlers, incl. raw-event handlers whose results are patched):          *)
(*   patch(t, rv)   the framework's PATCH changed the object to version rv *)
(*   inv(t, rv)     a change-detecting handler was invoked on a view rv    *)
(*   line(t, rv)    a watch line was handed to the operator's stream       *)
(*   winv(t, rv)    a raw-event handler was invoked on a view rv           *)
(* Clauses:  (1) no inv on a view older than an own patch, unless the      *)
(* consistency timeout has elapsed since that patch;  (2) raw-event        *)
(* handlers are not delayed by the barrier: a line that arrives alone in   *)
(* its instant (and finds the worker idle) is seen by them in that instant.*)
(***************************************************************************)
EXTENDS Naturals, Sequences, FiniteSets, TLC, Json, IOUtils, TLCExt
Traces == JsonDeserialize(IOEnv.TRACE_FILE)
VARIABLES tid, l, patches, handled, verdict
vars == <<tid, l, patches, handled, verdict>>
T == Traces[tid].events
E == T[l]
Tmo == Traces[tid].timeout
Init == tid \in 1..Len(Traces) /\ l = 1 /\ patches = {} /\ handled = 0 /\ verdict = "ok"
Bad(v) == verdict' = IF verdict = "ok" THEN v ELSE verdict
Alone(i) == \A j \in DOMAIN T : (j # i /\ T[j].ev = "line") => T[j].t # T[i].t
SeenAt(i) == \E j \in DOMAIN T : T[j].ev = "winv" /\ T[j].rv = T[i].rv /\ T[j].t = T[i].t
Step ==
  /\ l <= Len(T) /\ l' = l + 1 /\ UNCHANGED tid
  /\ CASE E.ev = "patch" -> patches' = patches \cup {<<E.t, E.rv>>} /\ UNCHANGED verdict
                             \* the last-handled state is on the object from this version on (0: not yet)
                             /\ handled' = (IF handled = 0 /\ "lh" \in DOMAIN E /\ E.lh THEN E.rv ELSE handled)
       [] E.ev = "inv" -> /\ UNCHANGED <<patches, handled>>
                          /\ IF \E p \in patches : p[2] > E.rv /\ E.t < p[1] + Tmo
                             THEN Bad("change_handler_on_a_view_older_than_the_own_patch")
                             \* (C05) creation is for objects that were never handled before: no creation handler on a view that
                             \* carries the stored last-handled state.  (A view older than the patch that stored it does not carry it;
                             \* once the consistency timeout has elapsed such a view is processed for what it shows.)
                             ELSE IF handled # 0 /\ E.rv >= handled /\ "reason" \in DOMAIN E /\ E.reason = "create"
                                  THEN Bad("creation_handler_on_an_object_that_was_handled_before")
                             ELSE UNCHANGED verdict
       [] E.ev = "line" -> /\ UNCHANGED <<patches, handled>>
                           /\ IF E.idle /\ Alone(l) /\ ~SeenAt(l) THEN Bad("raw_event_handler_was_delayed") ELSE UNCHANGED verdict
       [] OTHER -> UNCHANGED <<patches, handled, verdict>>
Spec == Init /\ [][Step]_vars
Book == IF l = Len(T) + 1 THEN TLCSet(1, [TLCGet(1) EXCEPT ![tid] = verdict]) ELSE TRUE
ASSUME TLCSet(1, [i \in 1..Len(Traces) |-> "incomplete"])
Verdicts == \A i \in 1..Len(Traces) : PrintT(<<"MONITOR", i, Traces[i].id, TLCGet(1)[i]>>)
=============================================================================
