SPECIFICATION Spec
CONSTANTS
  Reaction = "cancel"
  Backoff = 2
  Timeout = 2
  ObeyDelay = 1
  MaxEnv = 3
INVARIANT StopDriven
CHECK_DEADLOCK FALSE
