--------------------------- MODULE ConvergeMonitor ---------------------------
(***************************************************************************)
(* C03 stated over recorded executions of the real operator whose change   *)
(* handler registers sub-handlers that register sub-handlers of their own  *)
(* (two levels and a sibling leaf), with edits made at rest, failing       *)
(* leaves, and a restart with an edit made while no operator was running:  *)
(*   done(id, how, ess)   a handler of any level returned ("ok"), asked    *)
(*                        for a retry ("temp") -- ess: the essence it saw  *)
(*   rest(records, lh, ess)   the object at rest: the progress records     *)
(*                        that are on it, its last-handled essence, its    *)
(*                        essence                                          *)
(* At rest: no progress record of any level remains, the last-handled      *)
(* state is the final state, and every handler of every level has          *)
(* succeeded on the final state.                                           *)
(***************************************************************************)
EXTENDS Naturals, Sequences, FiniteSets, TLC, Json, IOUtils, TLCExt
Traces == JsonDeserialize(IOEnv.TRACE_FILE)
VARIABLES tid, l, last, verdict
vars == <<tid, l, last, verdict>>
T == Traces[tid].events
E == T[l]
Handlers == {Traces[tid].handlers[i] : i \in DOMAIN Traces[tid].handlers}
Init == tid \in 1..Len(Traces) /\ l = 1 /\ last = [h \in Handlers |-> 0] /\ verdict = "ok"
Bad(v) == verdict' = IF verdict = "ok" THEN v ELSE verdict
Step ==
  /\ l <= Len(T) /\ l' = l + 1 /\ UNCHANGED tid
  /\ CASE E.ev = "done" /\ E.how = "ok" /\ E.id \in Handlers -> last' = [last EXCEPT ![E.id] = E.ess] /\ UNCHANGED verdict
       [] E.ev = "rest" ->
            /\ UNCHANGED last
            /\ IF Len(E.records) > 0 THEN Bad("progress_records_remain_at_rest")
               ELSE IF E.lh # E.ess THEN Bad("last_handled_state_is_not_the_final_state")
               ELSE IF \E h \in Handlers : last[h] # E.ess THEN Bad("a_handler_has_not_run_against_the_final_state")
               ELSE UNCHANGED verdict
       [] OTHER -> UNCHANGED <<last, verdict>>
Spec == Init /\ [][Step]_vars
Book == IF l = Len(T) + 1 THEN TLCSet(1, [TLCGet(1) EXCEPT ![tid] = verdict]) ELSE TRUE
ASSUME TLCSet(1, [i \in 1..Len(Traces) |-> "incomplete"])
Verdicts == \A i \in 1..Len(Traces) : PrintT(<<"MONITOR", i, Traces[i].id, TLCGet(1)[i]>>)
=============================================================================
