-------------------------- MODULE Trace_Handling --------------------------
(***************************************************************************)
(* Trace validation for Handling.tla.  A batch of traces recorded from the *)
(* real kopf.operator() in the world simulator: environment actions, the   *)
(* worker's q.* hooks, handler invocations, and every PATCH as applied by  *)
(* the fake API server with the projected object after it.                 *)
(*                                                                         *)
(* Each event is bound to the action of Handling it claims to be, with its *)
(* logged arguments and the projected state after it; ProcFinish, the      *)
(* replies, the interruptible waits and the clock are inferred.  The clock *)
(* may advance only when no operator step is enabled (urgency), so "the    *)
(* retry came too early / too late" is a rejection too.                    *)
(***************************************************************************)
EXTENDS Handling, Json, IOUtils, TLCExt

Traces == JsonDeserialize(IOEnv.TRACE_FILE)
VARIABLES tid, l, bad, exc
tvars == <<vars, tid, l, bad, exc>>
T == Traces[tid].events
E == T[l]

HcOf(c) == [h \in H |-> [reasons |-> Range(c.hc[h].reasons), optional |-> c.hc[h].optional,
                          deleted |-> c.hc[h].deleted, retries |-> c.hc[h].retries, mode |-> c.hc[h].mode,
                          backoff |-> c.hc[h].backoff, timeout |-> c.hc[h].timeout]]
ConfOf(c) == IF "dh" \in DOMAIN c
             THEN [hc |-> HcOf(c), order |-> c.order, lifecycle |-> c.lifecycle, ctimeout |-> c.ctimeout,
                   dh |-> c.dh, polling |-> c.polling, exitto |-> c.exitto]
             ELSE IF "subs" \in DOMAIN c
             THEN [hc |-> HcOf(c), order |-> c.order, lifecycle |-> c.lifecycle, ctimeout |-> c.ctimeout,
                   subs |-> [h \in H |-> c.subs[h]]]
             ELSE IF "res" \in DOMAIN c
             THEN [hc |-> HcOf(c), order |-> c.order, lifecycle |-> c.lifecycle, ctimeout |-> c.ctimeout,
                   res |-> [ssub |-> c.res.ssub, vals |-> {}, ev |-> c.res.ev, idle |-> c.res.idle]]
             ELSE [hc |-> HcOf(c), order |-> c.order, lifecycle |-> c.lifecycle, ctimeout |-> c.ctimeout]
TInit ==
  /\ tid \in 1..Len(Traces) /\ l = 1 /\ bad = "none" /\ exc = "none"
  /\ conf = ConfOf(Traces[tid].conf)
  /\ LET i == Traces[tid].init
         o == [exists |-> TRUE, rv |-> 1, ess |-> i.ess, lh |-> 0, prog |-> [h \in H |-> NoRec], fins |-> <<>>,
               deleting |-> FALSE, dummy |-> 0, match |-> i.match, res |-> [h \in H |-> 0], evres |-> 0]
     IN /\ obj = o /\ chan = (IF i.up THEN << Snap("ADDED", o) >> ELSE <<>>) /\ bl = <<>>
        /\ now = i.t /\ up = i.up
  /\ stopping = FALSE /\ mem = FreshMem /\ wk = FreshWk /\ pc = "idle" /\ cyc = NoCyc
  /\ bud = [edits |-> 0, fails |-> 0, kills |-> 0, stops |-> 0, deletes |-> 0, foreign |-> 0, toggles |-> 0,
            relists |-> 0, holds |-> 0]
  /\ gh = [succ |-> [h \in H |-> 0], seen |-> [h \in H |-> 0], deldone |-> {}, delagain |-> FALSE, early |-> FALSE, early38 |-> FALSE,
           touched |-> FALSE, resumed |-> [h \in H |-> 0], badinv |-> "none", foreignlost |-> FALSE,
           reverted |-> FALSE, leftunmatched |-> FALSE, staleview |-> FALSE,
           ownrv |-> 0, owntime |-> 0, blindwrite |-> FALSE, cseen |-> [h \in H |-> 0], f8 |-> FALSE,
           killer |-> FALSE, exiting |-> FALSE, stopat |-> 0, orph |-> FALSE, rematch |-> {}]

Ev(e) == l <= Len(T) /\ E.ev = e /\ E.t = now /\ l' = l + 1 /\ UNCHANGED tid
Keep == UNCHANGED <<tid, l>>

\* (the creation instant of a record is compared only when some handler of the operator has a timeout)
ProgOf(p) == [h \in H |-> [st |-> p[h].st, r |-> p[h].r, pu |-> p[h].pu, until |-> p[h].until,
                           first |-> IF AnyTimeout /\ p[h].st # "none" THEN p[h].first ELSE 0]]
ObjIs(o, e) == /\ o.rv = e.rv /\ o.ess = e.ess /\ o.lh = e.lh /\ o.prog = ProgOf(e.prog) /\ o.fins = e.fins
               /\ o.deleting = e.deleting /\ (o.dummy # 0) = e.dummy /\ o.match = e.match
               /\ ("res" \in DOMAIN e => o.res = [h \in H |-> e.res[h]] /\ o.evres = e.evres)

TEdit    == Ev("edit") /\ (UserEdit(E.ess) \/ Toggle(E.ess)) /\ ObjIs(obj', E)
TDelete  == Ev("delete") /\ UserDelete /\ obj'.rv = E.rv /\ obj'.exists = ~E.gone
TFin     == Ev("fin") /\ (IF E.op = "add" THEN ForeignAdd(E.name) ELSE ForeignDel(E.name)) /\ obj'.rv = E.rv /\ obj'.fins = E.fins
TDeliver == Ev("deliver") /\ Deliver /\ Head(chan).rv = E.rv /\ Head(chan).type = E.type
EffCt(c) == IF c > now THEN c ELSE 0
TBegin   == Ev("begin") /\ ProcBegin /\ Head(bl).rv = E.rv /\ Head(bl).type = E.type
            /\ EffCt(wk'.ctime) = EffCt(E.ctime)
            /\ (EffCt(E.ctime) # 0 => wk'.exp = E.exp)
            /\ wk'.pr = E.pr
OutOf(e) == IF "res" \in DOMAIN e /\ e.res # 0 THEN [k |-> e.k, d |-> e.d, res |-> e.res] ELSE [k |-> e.k, d |-> e.d]
TInv     == Ev("inv") /\ (InvokeWith(E.h, OutOf(E)) \/ InvokeSub(E.h, OutOf(E)))
            /\ cyc'.last.retry = E.retry /\ cyc'.last.reason = E.reason /\ cyc'.last.rv = E.rv
TMerge   == Ev("merge") /\ (SrvMerge \/ SrvStatus \/ SrvTouch)
            /\ IF E.code = 404 THEN ~obj.exists ELSE obj.exists /\ ObjIs(obj', E) /\ (obj' # obj) = E.changed
TJson    == Ev("json") /\ SrvJson
            /\ CASE E.code = 404 -> ~obj.exists
                 [] E.code = 422 -> obj.exists /\ obj.rv # cyc.fresh
                 [] OTHER -> obj.exists /\ obj.rv = cyc.fresh /\ obj'.fins = E.fins /\ obj'.rv = E.rv /\ obj'.exists = ~E.gone
TEnd     == Ev("end") /\ Post /\ RetRv = E.rv
TKill    == Ev("kill") /\ IF up THEN Kill ELSE UNCHANGED <<obj, chan, bl, up, stopping, mem, wk, pc, cyc, now, bud, gh>>
TStop    == Ev("stop") /\ Stop
TDown    == Ev("down") /\ IF up THEN Down ELSE UNCHANGED <<obj, chan, bl, up, stopping, mem, wk, pc, cyc, now, bud, gh>>
TList    == Ev("list") /\ (IF up THEN Relist ELSE Start)
            /\ (IF E.rv = 0 THEN ~obj.exists ELSE obj.exists /\ obj.rv = E.rv)
\* daemons and timers beside the change handlers (events of instances the model has lost sight of - forgotten with a vanished
\* object, family F5 - or of a process that is gone are let through)
Same == UNCHANGED <<obj, chan, bl, up, stopping, mem, wk, pc, cyc, now, bud, gh>>
Known(h) == up /\ h \in DHs /\ mem.run[h].on
Lost == ~up \/ gh.orph
SweepCancel(h) == /\ up /\ gh.exiting /\ gh.killer /\ Alive(h) /\ ~DH[h].sync
                  /\ SetRun(h, [mem.run[h] EXCEPT !.cdel = TRUE]) /\ DOnly
TExiting == Ev("exiting") /\ IF up THEN ExitBegin ELSE Same     \* (a process stopped before it had listed anything is not a process of the model)
TEnter   == Ev("enter") /\ IF Known(E.h) /\ ~mem.run[E.h].started THEN DEnter(E.h) ELSE Lost /\ Same
TSeen    == Ev("flagseen") /\ IF Known(E.h) /\ Alive(E.h) THEN DSeeFlag(E.h) ELSE Lost /\ Same
TCancel  == Ev("cancel") /\ IF Known(E.h) /\ Alive(E.h) THEN (IF mem.run[E.h].creq THEN DCancelled(E.h) ELSE SweepCancel(E.h)) ELSE Lost /\ Same
TExit    == Ev("exit") /\ IF Known(E.h) /\ Alive(E.h) THEN DExit(E.h) ELSE Lost /\ Same
\* the run was cut because the operator never came to rest within one instant (the recorder overflowed): the prefix is validated,
\* and the family of the livelock, if it is a known one, is named
TLive    == Ev("livelock") /\ UNCHANGED <<obj, chan, bl, up, stopping, mem, wk, pc, cyc, now, bud, gh>>
TQuiet   == Ev("quiet") /\ ~ENABLED Urgent /\ (up => chan = <<>> /\ bl = <<>>)
            /\ UNCHANGED <<obj, chan, bl, up, stopping, mem, wk, pc, cyc, now, bud, gh>>

Silent == (CWaitWoken \/ CWaitTimeout \/ ProcFinish \/ Reply1 \/ PostNoop \/ WorkerExit \/ SleepWake \/ SleepExpire \/ ParentEnd \/ (\E h \in H : InvokeTimeout(h))
           \/ (\E h \in DHs : StopSet(h) \/ Stage(h) \/ StageC(h) \/ KCancel(h) \/ KDrop(h) \/ REnd(h)) \/ Decide \/ KillerExit \/ WorkerAbort) /\ Keep
Advance == /\ l <= Len(T) /\ E.t > now /\ ~ENABLED Urgent
           /\ now' = now + 1          \* second by second: a deadline in between may not be jumped over
           /\ UNCHANGED <<obj, chan, bl, up, stopping, mem, wk, pc, cyc, bud, gh, conf, tid, l>>

AllInv == InvokeGoverned /\ InvokeCauseOk /\ CloseExactlyWhenDone /\ NeverEarly /\ ForeignUntouched /\ ResumeOnce
          /\ FreshOrTimedOut /\ RetriesBounded /\ Stealth /\ DaemonStages /\ NoLateAttempt /\ ~Family_F38
FirstBad == IF ~InvokeGoverned THEN "InvokeGoverned" ELSE IF ~InvokeCauseOk THEN "InvokeCauseOk"
            ELSE IF ~CloseExactlyWhenDone THEN "CloseExactlyWhenDone" ELSE IF ~NeverEarly THEN "NeverEarly"
            ELSE IF ~ForeignUntouched THEN "ForeignUntouched" ELSE IF ~ResumeOnce THEN "ResumeOnce"
            ELSE IF ~FreshOrTimedOut THEN "FreshOrTimedOut" ELSE IF ~RetriesBounded THEN "RetriesBounded"
            ELSE IF ~Stealth THEN "Stealth" ELSE IF ~DaemonStages THEN "DaemonStages" ELSE IF ~NoLateAttempt THEN "NoLateAttempt"
            ELSE IF Family_F38 THEN "F38" ELSE "none"

TStep == TEdit \/ TDelete \/ TFin \/ TDeliver \/ TBegin \/ TInv \/ TMerge \/ TJson \/ TEnd \/ TKill \/ TStop \/ TDown
         \/ TList \/ TQuiet \/ TLive \/ TExiting \/ TEnter \/ TSeen \/ TCancel \/ TExit \/ Silent \/ Advance
\* which known family excuses a final state that is not converged (reported as KNOWN-FINDING by the runner)
Excuse == IF ~up \/ stopping \/ pc \in {"sleep", "cwait"} THEN "none"
          ELSE IF Converged THEN (IF Family_F8 THEN "F8" ELSE "none")
          ELSE IF Family_F20 THEN "F20" ELSE IF Family_F22 THEN "F22" ELSE IF Family_F21 THEN "F21"
          ELSE IF Family_F31 THEN "F31" ELSE "unconverged"
TNext == /\ TStep /\ conf' = conf /\ bad' = (IF bad # "none" THEN bad ELSE FirstBad')
         /\ exc' = (IF l <= Len(T) /\ E.ev = "quiet" /\ l' = l + 1 THEN Excuse
                    ELSE IF l <= Len(T) /\ E.ev = "livelock" /\ l' = l + 1 THEN (IF Family_F9 THEN "F9" ELSE "livelock") ELSE exc)
TSpec == TInit /\ [][TNext]_tvars

Max2(a, b) == IF a >= b THEN a ELSE b
Book ==
  /\ TLCSet(3, [TLCGet(3) EXCEPT ![tid] = Max2(@, l)])
  /\ (IF exc # "none" THEN TLCSet(4, [TLCGet(4) EXCEPT ![tid] = exc]) ELSE TRUE)
  /\ IF bad = "none" THEN TLCSet(1, [TLCGet(1) EXCEPT ![tid] = Max2(@, l)])
     ELSE IF l >= TLCGet(3)[tid] THEN TLCSet(2, [TLCGet(2) EXCEPT ![tid] = bad]) ELSE TRUE
ASSUME TLCSet(1, [i \in 1..Len(Traces) |-> 0]) /\ TLCSet(3, [i \in 1..Len(Traces) |-> 0])
       /\ TLCSet(2, [i \in 1..Len(Traces) |-> "none"]) /\ TLCSet(4, [i \in 1..Len(Traces) |-> "none"])
Verdicts ==
  \A i \in 1..Len(Traces) :
     PrintT(<<"VERDICT", i, Traces[i].id, TLCGet(1)[i] - 1, TLCGet(3)[i] - 1, Len(Traces[i].events), TLCGet(2)[i], TLCGet(4)[i]>>)
=============================================================================
