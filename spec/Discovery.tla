------------------------------ MODULE Discovery ------------------------------
(***************************************************************************)
(* What the operator makes of the cluster's API discovery documents        *)
(* (clients.scanning.scan_resources): the set of resources it knows.       *)
(* A reference function of the documents:                                  *)
(*   core    sequence of versions of the core API ("/api"), each with its  *)
(*           resource list ("/api/<v>") or gone (404)                      *)
(*   groups  sequence of [name, preferred, versions: sequence of           *)
(*           [version, gone, resources]]  ("/apis", "/apis/<g>/<v>")       *)
(*   a resource-list item: [base, sub ("" = the resource itself, else the  *)
(*           item is the subresource "<base>/<sub>"), kind, kindLower,     *)
(*           singular, shortNames, categories, verbs, namespaced]          *)
(*   only    "all" or the set of group names a re-scan is limited to       *)
(* Rules: every item without a slash is a resource; its subresources are   *)
(* the items "<its name>/<sub>" of the SAME list; the preferred flag is    *)
(* "this version is the group's preferredVersion" (always, for the core    *)
(* API); an empty singular falls back to the lower-cased kind; a version   *)
(* that answers 404 contributes nothing; a limited re-scan returns only    *)
(* the named groups ("" is the core API).                                  *)
(***************************************************************************)
EXTENDS Naturals, Sequences, FiniteSets, TLC

Range(s) == {s[i] : i \in DOMAIN s}
OfList(g, v, pref, items) ==
  {[group |-> g, version |-> v, plural |-> it.base, kind |-> it.kind,
    singular |-> IF it.singular = "" THEN it.kindLower ELSE it.singular,
    shortcuts |-> Range(it.shortNames), categories |-> Range(it.categories), verbs |-> Range(it.verbs),
    subresources |-> {x.sub : x \in {y \in Range(items) : y.base = it.base /\ y.sub # ""}},
    namespaced |-> it.namespaced, preferred |-> pref] : it \in {y \in Range(items) : y.sub = ""}}
Wanted(only, g) == only.all \/ g \in Range(only.groups)
OfGroup(only, g) ==
  UNION ({IF g.versions[j].gone \/ ~Wanted(only, g.name) THEN {}
          ELSE OfList(g.name, g.versions[j].version, g.versions[j].version = g.preferred, g.versions[j].resources) : j \in DOMAIN g.versions} \cup {{}})
Expected(doc) ==
  UNION ({IF doc.core[i].gone \/ ~Wanted(doc.only, "") THEN {} ELSE OfList("", doc.core[i].version, TRUE, doc.core[i].resources) : i \in DOMAIN doc.core}
         \cup {OfGroup(doc.only, doc.groups[i]) : i \in DOMAIN doc.groups} \cup {{}})
\* what the real function returned, item by item (sets given as sequences by the harness)
Got(rec) == {[group |-> r.group, version |-> r.version, plural |-> r.plural, kind |-> r.kind, singular |-> r.singular,
              shortcuts |-> Range(r.shortcuts), categories |-> Range(r.categories), verbs |-> Range(r.verbs),
              subresources |-> Range(r.subresources), namespaced |-> r.namespaced, preferred |-> r.preferred] : r \in Range(rec.got)}
Key(r) == <<r.group, r.version, r.plural>>
ClassifyDiscovery(rec) ==
  LET e == Expected(rec.doc) g == Got(rec) IN
  IF rec.raised # "" THEN "scan_failed"
  ELSE IF Len(rec.got) # Cardinality(g) THEN "a_resource_returned_twice"
  ELSE IF {Key(r) : r \in g} # {Key(r) : r \in e} THEN "wrong_set_of_resources"
  ELSE IF \E r \in g : \E x \in e : Key(r) = Key(x) /\ r.preferred # x.preferred THEN "wrong_preferred_flag"
  ELSE IF \E r \in g : \E x \in e : Key(r) = Key(x) /\ r.subresources # x.subresources THEN "wrong_subresources"
  ELSE IF g # e THEN "wrong_resource_description"
  ELSE "ok"
=============================================================================
