SPECIFICATION MCSpec
CONSTANTS
  Ops = {"a", "b", "c"}
  Ext_ = {}
  NoConf = NoConf
  QMax = 2
  TrackVer = FALSE
  PrioC <- PTie
  LifeC <- L4
  PeriodC <- Per2
  MaxStarts = 3
  MaxStops = 1
  MaxKills = 1
  MaxExt = 0
  ExtRecs <- NoExt
INVARIANT RenewsInTime
INVARIANT WithdrawsOnExit
PROPERTY EventuallyStable
PROPERTY CleansDead
CHECK_DEADLOCK FALSE
