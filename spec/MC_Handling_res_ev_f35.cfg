SPECIFICATION SafeSpec
CONSTANTS
  H = {"a", "b"}
  ConfSet <- Confs_res_ev
  Delays = {1}
  EssVals = {1, 2}
  Foreign = {}
  Horizon = 5
  Doors <- LateOnly
  NoopSleeps <- F35Code
  MaxEdits = 1
  MaxFails = 1
  MaxKills = 0
  MaxStops = 0
  MaxDeletes = 0
  MaxForeign = 0
  MaxToggles = 0
  MaxRelists = 0
  MaxHolds = 0
INVARIANT InvokeGoverned
INVARIANT InvokeCauseOk
INVARIANT CloseExactlyWhenDone
INVARIANT NeverEarly
INVARIANT ForeignUntouched
INVARIANT AtMostOnce
INVARIANT TerminalConverged
INVARIANT FreshOrTimedOut
INVARIANT RetriesBounded
INVARIANT Stealth
CHECK_DEADLOCK FALSE
