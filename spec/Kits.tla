------------------------------- MODULE Kits -------------------------------
(***************************************************************************)
(* The asyncio helpers under several properties (kopf/_cogs/aiokits):      *)
(*  - aiotime.sleep (C02, C07, C11, C12: the sleeps for handler delays,    *)
(*    the consistency barrier, the error pauses): what it returns says     *)
(*    whether it was interrupted, and by how much -- a reference function  *)
(*    and a classifier for records of the real coroutine in virtual time;  *)
(*  - aiotoggles.Toggle / ToggleSet (C13, C17, C19: the operator's pause,  *)
(*    the readiness gate of the indices): a step model of a set with any / *)
(*    all semantics, its toggles and the tasks that wait for it to be on   *)
(*    or off -- a waiter is released when, and only when, the set is in    *)
(*    the state it waits for; checked by TLC and bound to the real classes *)
(*    by trace validation (Trace_Kits).                                    *)
(***************************************************************************)
EXTENDS Naturals, Integers, Sequences, FiniteSets, TLC

\* ---- aiotime.sleep: times are rationals n/1000 given as integers (milliseconds) --------------------------------------
\* rec: delays (sequence; -1 = None), preset (the wake-up event is set before the sleep), wake (the instant, relative to the start, at
\* which the event is set, -1 = never), res (-1 = None, else the remainder), took (how long the call took)
MinDelay(ds) == LET real == {ds[i] : i \in {j \in DOMAIN ds : ds[j] >= 0}} IN
                IF real = {} THEN 0 ELSE CHOOSE m \in real : \A d \in real : m <= d
ClassifySleep(rec) ==
  LET m == MinDelay(rec.delays) IN
  IF m <= 0 THEN (IF rec.res = -1 /\ rec.took = 0 THEN "ok" ELSE "no_delay_must_return_none_at_once")
  ELSE IF rec.preset THEN (IF rec.res = m /\ rec.took = 0 THEN "ok" ELSE "a_set_event_interrupts_at_once_with_the_whole_delay_left")
  ELSE IF rec.wake >= 0 /\ rec.wake < m THEN
       (IF rec.res = m - rec.wake /\ rec.took = rec.wake THEN "ok" ELSE "an_interrupted_sleep_returns_what_is_left")
  ELSE IF rec.wake = m THEN
       (IF rec.took = m /\ rec.res \in {-1, 0} THEN "ok" ELSE "a_sleep_that_ends_with_the_wakeup_returns_none_or_zero")
  ELSE (IF rec.res = -1 /\ rec.took = m THEN "ok" ELSE "a_full_sleep_returns_none_after_the_delay")

\* ---- ToggleSet --------------------------------------------------------------------------------------------------
CONSTANTS Names, Tasks, Fn, MaxOps      \* toggle names; waiting tasks; "any" | "all"; bound on the environment's operations
VARIABLES tg,       \* [Names -> {"absent", "on", "off"}]
          want,     \* [Tasks -> {"none", "on", "off"}]: what a task waits for ("none": not waiting)
          nops
kvars == <<tg, want, nops>>
Present == {n \in Names : tg[n] # "absent"}
SetOn == IF Fn = "any" THEN \E n \in Present : tg[n] = "on" ELSE \A n \in Present : tg[n] = "on"
StateIs(s) == (s = "on") = SetOn
KInit == tg = [n \in Names |-> "absent"] /\ want = [t \in Tasks |-> "none"] /\ nops = 0
Make(n, v) == nops < MaxOps /\ tg[n] = "absent" /\ tg' = [tg EXCEPT ![n] = v] /\ nops' = nops + 1 /\ UNCHANGED want
Drop(n) == nops < MaxOps /\ tg[n] # "absent" /\ tg' = [tg EXCEPT ![n] = "absent"] /\ nops' = nops + 1 /\ UNCHANGED want
Turn(n, v) == nops < MaxOps /\ tg[n] # "absent" /\ tg' = [tg EXCEPT ![n] = v] /\ nops' = nops + 1 /\ UNCHANGED want
Wait(t, s) == want[t] = "none" /\ want' = [want EXCEPT ![t] = s] /\ UNCHANGED <<tg, nops>>
Release(t) == want[t] # "none" /\ StateIs(want[t]) /\ want' = [want EXCEPT ![t] = "none"] /\ UNCHANGED <<tg, nops>>
KNext == \/ \E n \in Names : \E v \in {"on", "off"} : Make(n, v) \/ Turn(n, v)
         \/ \E n \in Names : Drop(n)
         \/ \E t \in Tasks : (\E s \in {"on", "off"} : Wait(t, s)) \/ Release(t)
KSpec == KInit /\ [][KNext]_kvars /\ \A t \in Tasks : WF_kvars(Release(t))
\* nobody is released into the wrong state (by construction of Release; the trace specification is where it bites); a task that waits
\* for a state that then holds for good is released
ReleasedEventually == \A t \in Tasks : \A s \in {"on", "off"} : (want[t] = s /\ [](StateIs(s))) ~> (want[t] = "none")
Urgent == \E t \in Tasks : want[t] # "none" /\ StateIs(want[t])
ClassifyKits(rec) == IF rec.kind = "sleep" THEN ClassifySleep(rec) ELSE "unknown_record_kind"
=============================================================================
