SPECIFICATION Spec
CONSTANTS
  Hs = {"d1", "d2", "t1"}
  ConfSet <- ConfsQ
  Horizon = 8
  MaxEdits = 0
  MaxToggles = 2
  MaxDeletes = 1
  MaxForce = 0
  MaxStops = 0
  MaxKills = 0
  MaxPauses = 0
INVARIANT NoF18
CHECK_DEADLOCK FALSE
