SPECIFICATION Spec
CONSTANTS
  Objs = {"o1", "o2", "o3"}
  Limit = 0
INVARIANT HandlersAfterIndex
PROPERTY AllHandled
CHECK_DEADLOCK FALSE
