SPECIFICATION SafeSpec
CONSTANTS
  H = {"a"}
  ConfSet <- Confs_to
  Delays = {1, 2}
  EssVals = {1, 2}
  Foreign = {}
  Horizon = 7
  Doors <- KillStop
  MaxEdits = 1
  MaxFails = 4
  MaxKills = 1
  MaxStops = 0
  MaxDeletes = 0
  MaxForeign = 0
  MaxToggles = 0
  MaxRelists = 0
  MaxHolds = 0
INVARIANT InvokeGoverned
INVARIANT CloseExactlyWhenDone
INVARIANT NoLateAttempt
INVARIANT TerminalConverged
CHECK_DEADLOCK FALSE
