SPECIFICATION Spec
INVARIANT NoW1
CHECK_DEADLOCK FALSE
