--------------------------- MODULE Trace_Timers ---------------------------
(* Trace validation for Timers.tla: start/end instants of the real timer function, the instants at which essential
   changes and the stop were processed.  The specification is deterministic given the environment's choices, so a
   trace is accepted iff every start instant is exactly the one the laws give. *)
EXTENDS Timers, Json, IOUtils, TLCExt
Traces == JsonDeserialize(IOEnv.TRACE_FILE)
VARIABLES tid, l, bad, fam
tvars == <<vars, tid, l, bad, fam>>
T == Traces[tid].events
E == T[l]
TInit == /\ tid \in 1..Len(Traces) /\ l = 1 /\ bad = "none" /\ fam = "none"
         /\ conf = Traces[tid].conf
         /\ now = Traces[tid].t0 /\ pc = "init" /\ wake = Traces[tid].t0 + conf.initdelay /\ started = 0 /\ lastReset = Traces[tid].t0
         /\ out = [k |-> "ok", d |-> 0] /\ retry = 0
         /\ pStart = 0 /\ pEnd = 0 /\ pOut = "none" /\ pDelay = 0 /\ runs = 0 /\ rs = 0 /\ changes = 0 /\ fails = 0 /\ stopped = FALSE /\ respawned = 0 /\ matching = TRUE /\ forever = FALSE
Ev(e) == l <= Len(T) /\ E.ev = e /\ E.t = now /\ l' = l + 1 /\ UNCHANGED tid
TStart == Ev("start") /\ HeadWith(E.dur, [k |-> E.k, d |-> E.d]) /\ pc' = "run" /\ retry = E.retry
TEnd == Ev("end") /\ End
TChange == Ev("change") /\ Change
\* what the code does (F6): without any change-detecting handler no diff-base is stored, so every event of the object --
\* the echo of the timer's own status patch included -- counts as a change and restarts the idle period
TSelf == Ev("selfchange") /\ Traces[tid].nochange /\ Change
TStop == Ev("stop") /\ (IF stopped THEN UNCHANGED vars ELSE Stop)
\* the object matches the filters again: a new instance, unless the last run of the old one is still in progress
TRematch == Ev("rematch") /\ (IF matching THEN UNCHANGED vars ELSE Rematch)
TUnmatch == Ev("unmatch") /\ (IF matching THEN Unmatch ELSE UNCHANGED vars)
\* the API refused the PATCH of the last run's result for good: the timer task ends (family F17)
TDies == Ev("patchfail") /\ Dies
TQuiet == Ev("quiet") /\ ~Urgent /\ UNCHANGED vars
SilentHead == HeadWith(0, [k |-> "ok", d |-> 0]) /\ pc' \in {"poll", "idle"} /\ UNCHANGED <<tid, l>>
Advance == /\ l <= Len(T) /\ E.t > now /\ ~Urgent
           /\ now' = (IF pc # "done" /\ wake > now /\ wake < E.t THEN wake ELSE E.t)     \* never jump over a due wake-up
           /\ UNCHANGED <<pc, wake, started, lastReset, out, retry, pStart, pEnd, pOut, pDelay, runs, rs, changes, fails, conf, stopped, respawned, matching, forever, tid, l>>
AllInv == RespawnedFirst /\ FirstRun /\ NoOverlap /\ IdleLaw /\ AfterOk /\ AfterOkSharp /\ AfterTemp /\ AfterExc /\ PermanentEndsIt
FirstBad == IF ~RespawnedFirst THEN "RespawnedFirst" ELSE IF ~FirstRun THEN "FirstRun" ELSE IF ~NoOverlap THEN "NoOverlap" ELSE IF ~IdleLaw THEN "IdleLaw" ELSE IF ~AfterOk THEN "AfterOk"
            ELSE IF ~AfterOkSharp THEN "AfterOkSharp" ELSE IF ~AfterTemp THEN "AfterTemp" ELSE IF ~AfterExc THEN "AfterExc"
            ELSE IF ~PermanentEndsIt THEN "PermanentEndsIt" ELSE "none"
TNext == /\ (TStart \/ TEnd \/ TChange \/ TSelf \/ TStop \/ TRematch \/ TUnmatch \/ TDies \/ TQuiet \/ SilentHead \/ Advance) /\ bad' = (IF bad # "none" THEN bad ELSE FirstBad')
         /\ fam' = (IF l <= Len(T) /\ l' = l + 1 /\ E.ev = "selfchange" THEN "F6"
                    ELSE IF l <= Len(T) /\ l' = l + 1 /\ E.ev = "patchfail" THEN "F17" ELSE fam)
TSpec == TInit /\ [][TNext]_tvars
Max2(a, b) == IF a >= b THEN a ELSE b
Book == /\ TLCSet(3, [TLCGet(3) EXCEPT ![tid] = Max2(@, l)])
        /\ (IF l = Len(T) + 1 /\ bad = "none" THEN TLCSet(4, [TLCGet(4) EXCEPT ![tid] = fam]) ELSE TRUE)
        /\ IF bad = "none" THEN TLCSet(1, [TLCGet(1) EXCEPT ![tid] = Max2(@, l)])
           ELSE IF l >= TLCGet(3)[tid] THEN TLCSet(2, [TLCGet(2) EXCEPT ![tid] = bad]) ELSE TRUE
ASSUME TLCSet(1, [i \in 1..Len(Traces) |-> 0]) /\ TLCSet(3, [i \in 1..Len(Traces) |-> 0]) /\ TLCSet(2, [i \in 1..Len(Traces) |-> "none"]) /\ TLCSet(4, [i \in 1..Len(Traces) |-> "none"])
Verdicts == \A i \in 1..Len(Traces) :
     PrintT(<<"VERDICT", i, Traces[i].id, TLCGet(1)[i] - 1, TLCGet(3)[i] - 1, Len(Traces[i].events), TLCGet(2)[i], TLCGet(4)[i]>>)
=============================================================================
