SPECIFICATION Spec
CONSTANTS
  Res = {"r1", "c1"}
  Nss = {"n1", "n2"}
  ClusterScoped = {"c1"}
  MaxRevisions = 1000000
  MaxDeaths = 0
  HoldLock = TRUE
VIEW NoCount
INVARIANT Coverage
CHECK_DEADLOCK FALSE
