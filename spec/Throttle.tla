----------------------------- MODULE Throttle -----------------------------
(***************************************************************************)
(* C12 (containment): throttlers.throttled -- the error pause of ONE       *)
(* object, call after call of the context manager that wraps its           *)
(* processing.  Implementation-shaped: the first sleep (a pause that is    *)
(* still running when the next event comes; an interrupted one means "do   *)
(* not run"), the body (runs, fails, or is skipped), the choice of the     *)
(* delay (the iterator over settings.queueing.error_delays is kept across  *)
(* consecutive errors and dropped by a success; when it runs out the last  *)
(* delay is used again), the second sleep.  Time in milliseconds.          *)
(***************************************************************************)
EXTENDS Naturals, Integers, Sequences, FiniteSets, TLC
CONSTANTS Delays,      \* settings.queueing.error_delays as a sequence
          Horizon, MaxCalls
None == -1
VARIABLES now,
          pos,         \* how many delays the kept iterator has given out; None: no iterator (source_of_delays is None)
          last,        \* last_used_delay or None
          until,       \* active_until or None
          pc,          \* "idle" | "sleep1" | "body" | "sleep2"
          run,         \* should_run of the call under way
          consec,      \* ghost: errors in a row since the last success
          ncalls
tvars0 == <<now, pos, last, until, pc, run, consec, ncalls>>
Init == now = 0 /\ pos = None /\ last = None /\ until = None /\ pc = "idle" /\ run = TRUE /\ consec = 0 /\ ncalls = 0
\* the context is entered (an event of the object is being processed); preset: the wake-up event is already set
Enter(preset) ==
  /\ pc = "idle" /\ ncalls < MaxCalls /\ ncalls' = ncalls + 1
  /\ IF until = None THEN pc' = "body" /\ run' = TRUE /\ UNCHANGED until
     ELSE IF until - now <= 0 THEN pc' = "body" /\ run' = TRUE /\ until' = None         \* nothing left to sleep: the pause is over
     ELSE IF preset THEN pc' = "body" /\ run' = FALSE /\ UNCHANGED until                \* interrupted at once: still paused, do not run
     ELSE pc' = "sleep1" /\ UNCHANGED <<run, until>>
  /\ UNCHANGED <<now, pos, last, consec>>
Sleep1Over == pc = "sleep1" /\ now = until /\ until' = None /\ pc' = "body" /\ run' = TRUE /\ UNCHANGED <<now, pos, last, consec, ncalls>>
Sleep1Woken == pc = "sleep1" /\ now < until /\ pc' = "body" /\ run' = FALSE /\ UNCHANGED <<now, pos, last, until, consec, ncalls>>
\* the body: skipped when told not to run; else it succeeds (the throttler is reset) or fails with an error of interest
Skip == pc = "body" /\ ~run /\ pc' = "idle" /\ UNCHANGED <<now, pos, last, until, run, consec, ncalls>>
Ok == pc = "body" /\ run /\ pos' = None /\ last' = None /\ consec' = 0 /\ pc' = "idle" /\ UNCHANGED <<now, until, run, ncalls>>
NextDelay == LET p == IF pos = None THEN 0 ELSE pos IN IF p < Len(Delays) THEN Delays[p + 1] ELSE last
Err ==
  /\ pc = "body" /\ run /\ consec' = consec + 1
  /\ pos' = (LET p == IF pos = None THEN 0 ELSE pos IN IF p < Len(Delays) THEN p + 1 ELSE p)
  /\ IF NextDelay = None THEN UNCHANGED <<last, until>> /\ pc' = "idle"
     ELSE last' = NextDelay /\ until' = now + NextDelay /\ pc' = "sleep2"
  /\ UNCHANGED <<now, run, ncalls>>
Sleep2Over == pc = "sleep2" /\ now = until /\ until' = None /\ pc' = "idle" /\ UNCHANGED <<now, pos, last, run, consec, ncalls>>
Sleep2Woken == pc = "sleep2" /\ now < until /\ pc' = "idle" /\ UNCHANGED <<now, pos, last, until, run, consec, ncalls>>
Due == pc \in {"sleep1", "sleep2"} /\ now = until
Tick == ~Due /\ now < Horizon /\ now' = now + 1000 /\ UNCHANGED <<pos, last, until, pc, run, consec, ncalls>>
Next == (\E p \in BOOLEAN : Enter(p)) \/ Sleep1Over \/ Sleep1Woken \/ Skip \/ Ok \/ Err \/ Sleep2Over \/ Sleep2Woken \/ Tick
Spec == Init /\ [][Next]_tvars0
\* ---- what must hold
Min2(a, b) == IF a <= b THEN a ELSE b
\* the processing never runs while the pause lasts
NoRunWhilePaused == (pc = "body" /\ run) => until = None
\* the pause after the k-th error in a row is the k-th configured delay (the last one once the list has run out); none if there are none
Growing == [][Err => (IF Delays = <<>> THEN until' = until ELSE until' = now + Delays[Min2(consec + 1, Len(Delays))])]_tvars0
\* only a success resets the growth: a skipped event (and an interrupted sleep) changes nothing
SkipChangesNothing == [][(pc = "body" /\ ~run /\ pc' = "idle") => (pos' = pos /\ last' = last /\ until' = until)]_tvars0
ResetBySuccess == [][Ok => (pos' = None /\ last' = None)]_tvars0
=============================================================================
