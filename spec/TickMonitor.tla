----------------------------- MODULE TickMonitor -----------------------------
(***************************************************************************)
(* C06 / C09 for timers whose function takes a while, as a property        *)
(* automaton over recorded executions of the real operator (one object,    *)
(* a slow timer, stuck or obedient daemons next to it):                    *)
(*   tick(h) / tickend(h)   the timer's function runs / has ended          *)
(*   tickcancel(h)          CancelledError was thrown into it              *)
(*   obj(exists, match)     the server's object after a change             *)
(*   released(byop)         the framework's finalizer was withdrawn from   *)
(*                          the deleting object                            *)
(*   opexit                 the operator was asked to stop                 *)
(* A timer is waited for: while its function runs on a matching object the *)
(* finalizer stays, and the function is never cancelled -- whatever        *)
(* backoffs and timeouts the daemons next to it have been granted.         *)
(***************************************************************************)
EXTENDS Naturals, Sequences, FiniteSets, TLC, Json, IOUtils, TLCExt
Traces == JsonDeserialize(IOEnv.TRACE_FILE)
VARIABLES tid, l, running, match, exiting, verdict
vars == <<tid, l, running, match, exiting, verdict>>
T == Traces[tid].events
E == T[l]
Init == tid \in 1..Len(Traces) /\ l = 1 /\ running = {} /\ match = FALSE /\ exiting = FALSE /\ verdict = "ok"
Bad(v) == verdict' = IF verdict = "ok" THEN v ELSE verdict
Step ==
  /\ l <= Len(T) /\ l' = l + 1 /\ UNCHANGED tid
  /\ CASE E.ev = "obj" -> match' = (E.exists /\ E.match) /\ UNCHANGED <<running, exiting, verdict>>
       [] E.ev = "tick" -> running' = running \cup {E.h} /\ UNCHANGED <<match, exiting>>
                           /\ IF E.h \in running THEN Bad("two_runs_of_a_timer_at_once") ELSE UNCHANGED verdict
       [] E.ev = "tickend" -> running' = running \ {E.h} /\ UNCHANGED <<match, exiting, verdict>>
       [] E.ev = "tickcancel" -> UNCHANGED <<running, match, exiting>>
                                 /\ IF exiting THEN UNCHANGED verdict ELSE Bad("a_timer_function_was_cancelled")
       [] E.ev = "released" -> UNCHANGED <<running, match, exiting>>
                               /\ IF running # {} /\ E.byop /\ match THEN Bad("finalizer_released_while_a_timer_function_runs") ELSE UNCHANGED verdict
       [] E.ev = "opexit" -> exiting' = TRUE /\ UNCHANGED <<running, match, verdict>>
       [] OTHER -> UNCHANGED <<running, match, exiting, verdict>>
Spec == Init /\ [][Step]_vars
Book == IF l = Len(T) + 1 THEN TLCSet(1, [TLCGet(1) EXCEPT ![tid] = verdict]) ELSE TRUE
ASSUME TLCSet(1, [i \in 1..Len(Traces) |-> "incomplete"])
Verdicts == \A i \in 1..Len(Traces) : PrintT(<<"MONITOR", i, Traces[i].id, TLCGet(1)[i]>>)
=============================================================================
