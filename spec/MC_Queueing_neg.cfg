SPECIFICATION SafeSpec
CONSTANTS
  Objs = {o1, o2}
  MaxEv = 3
  Limit = 0
  Recheck = FALSE
INVARIANT Serial
INVARIANT InOrder
INVARIANT EntryIffWorker
INVARIANT BacklogHasWorker
INVARIANT LimitRespected
INVARIANT LimitOnly
INVARIANT StrictNoLoss
CHECK_DEADLOCK FALSE
