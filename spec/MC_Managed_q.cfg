SPECIFICATION Spec
CONSTANTS
  MaxCC = 2
  MaxRev = 2
  ResVals = {1, 2}
  Obs = {"o1"}
  Variant = "code"
INVARIANT LockDiscipline
INVARIANT AtRestLatest
INVARIANT NoDeadlock
PROPERTY Monotone
PROPERTY Eventually
CHECK_DEADLOCK FALSE
