SPECIFICATION SafeSpec
CONSTANTS
  H = {"a", "d"}
  ConfSet <- Confs_ad
  Delays = {1}
  EssVals = {1, 2}
  Foreign = {"f1"}
  Horizon = 5
  Doors <- LateOnly
  MaxEdits = 1
  MaxFails = 1
  MaxKills = 0
  MaxStops = 0
  MaxDeletes = 1
  MaxForeign = 1
  MaxToggles = 1
  MaxRelists = 0
  MaxHolds = 0
INVARIANT InvokeGoverned
INVARIANT InvokeCauseOk
INVARIANT CloseExactlyWhenDone
INVARIANT NeverEarly
INVARIANT ForeignUntouched
INVARIANT FollowsMatching
INVARIANT TerminalConverged
INVARIANT FreshOrTimedOut
INVARIANT RetriesBounded
INVARIANT Stealth
CHECK_DEADLOCK FALSE
