SPECIFICATION Spec
CONSTANTS
  MaxCC = 2
  MaxRes = 3
  Variant = "latechain"
INVARIANT AtRestLatest
CHECK_DEADLOCK FALSE
