SPECIFICATION SafeSpec
CONSTANTS
  H = {"a", "r"}
  ConfSet <- Confs_ar
  Delays = {1}
  EssVals = {1, 2}
  Foreign = {}
  Horizon = 5
  Doors <- AllDoors
  MaxEdits = 1
  MaxFails = 1
  MaxKills = 1
  MaxStops = 1
  MaxDeletes = 0
  MaxForeign = 0
  MaxToggles = 0
  MaxRelists = 1
  MaxHolds = 0
INVARIANT InvokeGoverned
INVARIANT InvokeCauseOk
INVARIANT CloseExactlyWhenDone
INVARIANT NeverEarly
INVARIANT ForeignUntouched
INVARIANT TerminalConverged
INVARIANT ResumeOnce
INVARIANT FreshOrTimedOut
INVARIANT RetriesBounded
INVARIANT Stealth
CHECK_DEADLOCK FALSE
