----------------------------- MODULE Essence -----------------------------
(***************************************************************************)
(* C04: change detection is exact.                                         *)
(*                                                                         *)
(* Reference semantics (over the tagged JSON values of JV.tla):            *)
(*   Essence(body, x)  what counts as the essential state of an object for *)
(*                     an operator configured as x: the body minus         *)
(*                     apiVersion, kind, status, all metadata but labels   *)
(*                     and annotations; minus the operator's own           *)
(*                     annotations, the annotations of other Kopf-based    *)
(*                     operators (marker / known prefixes) and kubectl's   *)
(*                     last-applied-configuration; plus the extra fields   *)
(*                     handlers declared; empty stanzas removed            *)
(*   Diff / ApplyDiff  from JV.tla: mappings recursed, the rest atomic,    *)
(*                     an absent key is NOT the same as a null value       *)
(*   ReduceRef         the diff narrowed to a field                        *)
(* and the classifier of records produced by the real functions            *)
(* (diffbase.*.build, progress.*.clear, State.store/purge, touch,          *)
(* diffs.diff, diffs.reduce).  Annotation keys come with a lexical split   *)
(* (prefix, name, whether the prefix is kopf.zalando.org or a sub-domain   *)
(* of it) because TLC cannot look into strings.                            *)
(***************************************************************************)
EXTENDS JV

DropKeys(d, ks) == D([k \in Keys(d) \ ks |-> d.v[k]])
Sub(d, k) == IF IsD(d) /\ k \in Keys(d) THEN d.v[k] ELSE Absent

\* x = [own |-> set of the operator's own annotation prefixes, kinfo |-> [key |-> [prefix, name, kopf, slash]],
\*      statusfields |-> set of paths of own status-stored records, extra |-> set of extra field paths]
IgnoredPrefixes(anns, x) ==
  {x.kinfo[k].prefix : k \in {k2 \in Keys(anns) : x.kinfo[k2].slash /\ (x.kinfo[k2].name = "kopf-managed" \/ x.kinfo[k2].kopf)}}

KeepAnn(k, anns, x) ==
  /\ ~(x.kinfo[k].slash /\ x.kinfo[k].prefix \in (IgnoredPrefixes(anns, x) \cup x.own))
  /\ k # "kubectl.kubernetes.io/last-applied-configuration"

RECURSIVE PutAll(_, _, _)
PutAll(doc, src, paths) ==      \* copy the listed fields of src (where present) into doc
  IF paths = {} THEN doc
  ELSE LET p == CHOOSE p \in paths : TRUE
           v == Get(src, p)
       IN PutAll(IF IsAbsent(v) THEN doc ELSE Put(doc, p, v), src, paths \ {p})

\* dicts.remove: delete a nested field and every parent that is left empty
RECURSIVE DelP(_, _)
DelP(doc, path) ==
  IF ~IsD(doc) \/ Head(path) \notin Keys(doc) THEN doc
  ELSE IF Len(path) = 1 THEN DropKeys(doc, {Head(path)})
  ELSE LET k == Head(path) sub == doc.v[k] IN
       IF ~IsD(sub) THEN doc
       ELSE LET r == DelP(sub, Tail(path)) IN
            IF Keys(r) = {} THEN DropKeys(doc, {k}) ELSE D([x \in Keys(doc) |-> IF x = k THEN r ELSE doc.v[x]])

\* Python's == on JSON values conflates booleans with the integers 0 and 1 (family F23)
AsInt(x) == IF x.t = "b" THEN (IF x.v THEN I(1) ELSE I(0)) ELSE x
RECURSIVE JEqPy(_, _)
JEqPy(a, b) ==
  LET a2 == AsInt(a) b2 == AsInt(b) IN
  IF a2.t # b2.t THEN FALSE
  ELSE CASE a2.t \in {"n", "absent"} -> TRUE
         [] a2.t \in {"i", "s"} -> a2.v = b2.v
         [] a2.t = "l" -> Len(a2.v) = Len(b2.v) /\ \A i \in 1..Len(a2.v) : JEqPy(a2.v[i], b2.v[i])
         [] a2.t = "d" -> Keys(a2) = Keys(b2) /\ \A k \in Keys(a2) : JEqPy(a2.v[k], b2.v[k])

CleanStanzas(e) ==
  LET md0 == Sub(e, "metadata")
      md1 == IF IsD(md0) THEN DropKeys(md0, {k \in {"annotations", "labels"} : k \in Keys(md0) /\ IsD(md0.v[k]) /\ Keys(md0.v[k]) = {}})
             ELSE md0
      e1 == IF IsD(md0) THEN (IF Keys(md1) = {} THEN DropKeys(e, {"metadata"}) ELSE Put(e, <<"metadata">>, md1)) ELSE e
      st == Sub(e1, "status")
  IN IF IsD(st) /\ Keys(st) = {} THEN DropKeys(e1, {"status"}) ELSE e1

Essence(body, x) ==
  LET base == DropKeys(body, {"apiVersion", "kind", "metadata", "status"})
      labels == Get(body, <<"metadata", "labels">>)
      anns == Get(body, <<"metadata", "annotations">>)
      e1 == IF IsAbsent(labels) THEN base ELSE Put(base, <<"metadata", "labels">>, labels)
      anns2 == IF IsD(anns) THEN D([k \in {k2 \in Keys(anns) : KeepAnn(k2, anns, x)} |-> anns.v[k]]) ELSE anns
      e2 == IF IsAbsent(anns) THEN e1 ELSE Put(e1, <<"metadata", "annotations">>, anns2)
      e3 == PutAll(e2, body, x.extra)
      RECURSIVE DelAll(_, _)
      DelAll(d, ps) == IF ps = {} THEN d ELSE LET p == CHOOSE p \in ps : TRUE IN DelAll(DelP(d, p), ps \ {p})
  IN CleanStanzas(DelAll(CleanStanzas(e3), x.statusfields))

\* kopf's values: None stands for "no such field" in old/new of a diff item
ItemsOf(seq) == {[op |-> seq[i].op, path |-> seq[i].path, old |-> seq[i].old, new |-> seq[i].new] : i \in DOMAIN seq}
Norm(v) == IF IsNull(v) THEN Absent ELSE v          \* how an implementation item (None = missing) reads in the reference
ImplItems(seq) == {[op |-> it.op, path |-> it.path, old |-> Norm(it.old), new |-> Norm(it.new)] : it \in ItemsOf(seq)}

\* reading a null-valued key of a mapping as an absent key (family F4)
RECURSIVE NN(_)
NN(x) == IF ~IsD(x) THEN x ELSE D([k \in {k2 \in Keys(x) : ~IsNull(x.v[k2])} |-> NN(x.v[k])])
NNTop(x) == IF IsNull(x) THEN Absent ELSE NN(x)
NNItems(items) == {[op |-> it.op, path |-> it.path, old |-> NN(it.old), new |-> NN(it.new)] : it \in items}
TouchesNull(items) == \E it \in items : IsNull(it.old) \/ IsNull(it.new)
RECURSIVE HasNull(_)
HasNull(v) == IsNull(v) \/ (IsD(v) /\ \E k \in Keys(v) : HasNull(v.v[k]))
ItemEq(a, b) == a.op = b.op /\ a.path = b.path /\ JEq(a.old, b.old) /\ JEq(a.new, b.new)
SameItems(X, Y) == (\A p \in X : \E q \in Y : ItemEq(p, q)) /\ (\A q \in Y : \E p \in X : ItemEq(p, q))

ReduceRef(old, new, path) == Diff(Get(old, path), Get(new, path), <<>>)

(***************************************************************************)
(* The classifier of one record of the real code.                          *)
(***************************************************************************)
ClassifyC04(rec) ==
  CASE rec.kind = "own" ->        \* a write of the framework itself must not change the essence
         IF JEq(rec.before, rec.after) THEN "ok" ELSE "own_write_visible"
    [] rec.kind = "foreign" ->    \* a write of another Kopf-based operator must not change this operator's essence
         IF JEq(rec.before, rec.after) THEN "ok"
         ELSE IF rec.unmarked_kopf_prefix THEN "F19" ELSE "foreign_kopf_write_visible"
    [] rec.kind = "echo" ->       \* the echo of the own last-handled write: the stored state is there and equals the essence of the object
         IF ~rec.hasold THEN "stored_last_handled_state_is_not_found"
         ELSE IF JEq(rec.old, rec.new) THEN "ok" ELSE "own_last_handled_write_is_seen_as_a_change"
    [] rec.kind = "visible" ->    \* any other change must count
         IF ~JEq(rec.before, rec.after) THEN "ok" ELSE "essential_change_invisible"
    [] rec.kind = "essence" ->    \* the implementation's essence equals the reference
         IF JEq(rec.impl, Essence(rec.body, [own |-> {rec.x.own[i] : i \in DOMAIN rec.x.own}, kinfo |-> rec.x.kinfo,
                                              statusfields |-> {rec.x.statusfields[i] : i \in DOMAIN rec.x.statusfields},
                                              extra |-> {rec.x.extra[i] : i \in DOMAIN rec.x.extra}]))
         THEN "ok" ELSE "essence_differs_from_reference"
    [] rec.kind = "diff" ->
         LET impl == ImplItems(rec.items)
             ref == Diff(rec.old, rec.new, <<>>)
             sound == JEq(ApplyDiff(rec.old, impl), rec.new)
             complete == (impl = {}) <=> JEq(rec.old, rec.new)
             soundPy == JEqPy(ApplyDiff(rec.old, impl), rec.new)
             completePy == (impl = {}) <=> JEqPy(rec.old, rec.new)
         IN IF sound /\ complete /\ SameItems(impl, ref) THEN "ok"
            ELSE IF (HasNull(rec.old) \/ HasNull(rec.new)) /\ JEqPy(ApplyDiff(NN(rec.old), NNItems(impl)), NN(rec.new))
                    /\ ((impl = {}) <=> JEqPy(NN(rec.old), NN(rec.new))) THEN "F4"
            ELSE IF soundPy /\ completePy THEN "F23"
            ELSE IF ~sound THEN "diff_unsound" ELSE IF ~complete THEN "diff_incomplete" ELSE "diff_differs_from_reference"
    [] rec.kind = "reduce" ->
         LET impl == ImplItems(rec.items)
             ref == ReduceRef(rec.old, rec.new, rec.path)
         IN IF SameItems(impl, ref) THEN "ok"
            ELSE IF (HasNull(rec.old) \/ HasNull(rec.new))
                    /\ JEqPy(ApplyDiff(NNTop(Get(NN(rec.old), rec.path)), NNItems(impl)), NNTop(Get(NN(rec.new), rec.path))) THEN "F4"
            ELSE IF JEqPy(ApplyDiff(Get(rec.old, rec.path), impl), Get(rec.new, rec.path)) /\ ~JEq(Get(rec.old, rec.path), Get(rec.new, rec.path)) THEN "F23"
            ELSE "reduce_differs_from_reference"
    \* what a handler narrowed to a field is given as old / new: the value at that field (null where there is none), whatever changed
    [] rec.kind = "narrow" ->
         LET Nz(x) == IF IsAbsent(x) THEN [t |-> "n"] ELSE x
             eo == IF rec.hasold THEN Nz(Get(rec.old, rec.path)) ELSE [t |-> "n"]
             en == Nz(Get(rec.new, rec.path))
         IN IF JEq(rec.nold, eo) /\ JEq(rec.nnew, en) THEN "ok" ELSE "narrowed_old_new_are_not_the_values_of_the_field"
    [] OTHER -> "unknown_record_kind"
=============================================================================
